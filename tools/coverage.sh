#!/bin/bash
# Reach measurement: statement coverage of the LIBRARY (not the harness) while the
# checks' monitors run. Builds the workers with -cover in workspace mode (VERIF_COVER,
# see cmd/vcheck builder.get), runs the given tier of the given checks, merges the
# counter files and prints per-package percentages, per-check percentages of the root
# package and every library block no worker executed.
#   tools/coverage.sh [quick|thorough] [C01 C02 ...]   -> coverage/summary.txt, coverage/uncovered.txt
set -u
cd /verif
export GOFLAGS=-mod=mod GOPROXY=off GOSUMDB=off GOTOOLCHAIN=local
tier="${1:-quick}"; shift || true
checks="$@"; [ -z "$checks" ] && checks=$(seq -f "C%02g" 1 20)
D=$(mktemp -d /tmp/vcov.XXXXXX); trap 'rm -rf $D' EXIT
mkdir -p coverage
: > coverage/summary.txt
for c in $checks; do
  mkdir -p $D/$c
  line=$(VERIF_COVER=$D/$c ./bin/vcheck run $c $tier | grep -E "^$c $tier" | cut -c1-160)
  pct=$(go tool covdata percent -i=$D/$c 2>/dev/null | grep 'mpb/v8' | awk '{printf "%s=%s ", $1, $3}' | sed 's#github.com/vbauerster/mpb/v8#mpb#g')
  echo "$line | $pct" | tee -a coverage/summary.txt
done
dirs=$(ls -d $D/C* | tr '\n' ',' | sed 's/,$//')
mkdir -p $D/merged
go tool covdata merge -i=$dirs -o=$D/merged
go tool covdata textfmt -i=$D/merged -o=$D/all.out
grep -E '^mode:|^github.com/vbauerster/mpb/v8' $D/all.out > $D/lib.out
echo "== all checks merged ($tier tier)" | tee -a coverage/summary.txt
go tool covdata percent -i=$D/merged | grep 'mpb/v8' | tee -a coverage/summary.txt
(cd /repo && go tool cover -func=$D/lib.out) | awk '$NF!="100.0%"' > coverage/functions_below_100.txt
python3 - $D/lib.out > coverage/uncovered.txt <<'P'
import sys,collections
blocks=collections.OrderedDict()
for l in open(sys.argv[1]):
    if l.startswith('mode:'): continue
    loc,stm,cnt=l.rsplit(' ',2)
    blocks[loc]=blocks.get(loc,0)+int(cnt)
tot=sum(1 for _ in blocks); un=[k for k,v in blocks.items() if v==0]
print("# library blocks never executed under the monitors: %d of %d"%(len(un),tot))
for k in sorted(un, key=lambda k:(k.split(':')[0], int(k.split(':')[1].split('.')[0]))):
    f,r=k.split(':'); a,b=r.split(','); print("%s:%s-%s"%(f.replace('github.com/vbauerster/mpb/v8/',''),a.split('.')[0],b.split('.')[0]))
P
head -1 coverage/uncovered.txt | tee -a coverage/summary.txt
