#!/bin/bash
# For every seeded change directory given: confirm it (scratch worktree) and run the
# property's own check (quick) against it; prints one summary line per change.
#   tools/mutbatch.sh /tmp/mut/C05-out/m1 ...
cd /verif
for d in "$@"; do
  prop=$(python3 -c "import json;print(json.load(open('$d/meta.json'))['property'])" 2>/dev/null)
  [ -z "$prop" ] && { echo "$d: no meta.json"; continue; }
  race=""; grep -qi '"-race"\|go test -race\|with -race\|race detector' "$d/meta.json" && race="-race"
  conf=$(tools/confirm_mut.sh "$d" $race 2>&1 | tr '\n' ';')
  res=$(tools/runmut.sh "$d/patch.diff" quick $prop 2>&1 | tail -1 | sed 's/ — .*violations=/ violations=/' | cut -c1-120)
  echo "$d | $conf | $res"
done
