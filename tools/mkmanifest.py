#!/usr/bin/env python3
"""Regenerates /verif/MANIFEST.json from the table below and validates it.
Run:  python3-vt tools/mkmanifest.py   (any python3 works; validation needs jsonschema)"""
import json, subprocess, sys, os

ROOT = "/verif"
ENV = "GOFLAGS=-mod=mod GOPROXY=off GOSUMDB=off GOTOOLCHAIN=local"

# property -> (category, technique, level text, level note, design ref)
CHECKS = {
 "C07": ("exploration",
   "runtime monitor: width/UTF-8/termination assertions on every real Fill, Decor and rendered row for generated styles and widths; CPU-time/heap watchdog decides non-termination",
   "Real BarFiller.Fill, Decorator.Decor and whole rows (manually refreshed container) are executed for ~140k (quick) / ~2.5M (thorough) generated styles (empty, zero-width, wide, multi-rune components), widths 0..300 (0..40 swept fully), requested widths, wrappers and int64 values; each output's display width is recomputed with the harness' own table and compared with the allotted width / the reported width / the documented row layout; a call that burns >1.5 s CPU or >768 MiB heap is non-terminating.",
   "harness width table for the generated alphabet; ANSI colouring only through Meta wrappers; user fillers/decorators not held to the bound",
   "DESIGN.md 4/C07"),
 "C09": ("exploration",
   "runtime monitor: reference state machine compared with the real getters (and frame Statistics) after every step of generated sequential programs; exhaustive to length 3 (thorough 4)",
   "All operation sequences of length 3 (thorough: 4) over a 20-letter alphabet from 5 initial totals, plus random sequences up to length 40, are executed on real bars in non-refreshing, manual and auto containers; after every step Current/Completed/Aborted (manual: Statistics in a rendered frame) must equal the Appendix-B reference machine.",
   "reference machine transcribes the documented rules; overflowing sums excluded; stops at the first terminal transition",
   "DESIGN.md 4/C09, Appendix B"),
 "C19": ("exploration",
   "runtime monitor: scripted under-layer below the real proxies; both sides of the proxy, Bar.Current and a recording moving-average decorator are compared per call",
   "~3.8k (quick) / ~96k (thorough) scripted transfers through real ProxyReader/ProxyWriter over all 8 dynamic interface shapes x ewma x totals, with short/zero transfers, injected delays and errors at every position; bytes, n, err, Close forwarding, fast-path offering, Bar.Current and the delivered (n, duration) samples are checked.",
   "duration bounds are nesting relations between measured intervals; samples after completion are optional",
   "DESIGN.md 4/C19"),
 "C20": ("exploration",
   "runtime monitor: read-back oracle (printed string parsed and compared in 300-bit arithmetic with the true value) over unit-boundary lattices and random values; recording moving average for the estimator clauses",
   "Every size/percentage/time/speed decorator output for ~220k (quick) / ~6M (thorough) generated (value, verb, flag, precision, route) cases is parsed back and must equal the true value within half a unit of the last printed digit with the largest fitting unit; sample sequences with n<=0 / zero durations must be conserved and reach the estimator through wrappers; elapsed/average speed must freeze on completion.",
   "documented domain only (0<=current<=total, <60 h); float eps 4e-16 relative",
   "DESIGN.md 4/C20"),
 "C08": ("exploration",
   "runtime monitor: reference-model oracle (big-integer expected fill) over an exhaustive boundary lattice + seeded random inputs + sorted chains, run against the real BarFiller",
   "Every Fill of the real library on ~1.2M (quick) / ~16M (thorough) (total,current,refill,width,style) tuples is compared with exact big-integer proportional fill; boundary lattice over int64 x widths is enumerated completely, monotonicity is checked on sorted chains. Held = no counterexample among the inputs run.",
   "harness width table for the generated runes; float rounding tolerance of one cell for totals > 2^40; body-width clause delegated to C07",
   "DESIGN.md 4/C08"),
}

NOT_YET = {
}

def main():
    props = [json.loads(l)["id"] for l in open(os.path.join(ROOT, "properties.jsonl"))]
    hooks_commits = subprocess.run(["git", "-C", "/repo", "log", "--format=%H %s"], capture_output=True, text=True).stdout.splitlines()
    src = [l.split()[0] for l in hooks_commits if "verif hooks" in l]
    checks = []
    for pid in props:
        if pid not in CHECKS:
            continue
        cat, tech, text, note, ref = CHECKS[pid]
        checks.append({
            "property_id": pid,
            "quick_cmd": f"./bin/vcheck run {pid} quick",
            "thorough_cmd": f"./bin/vcheck run {pid} thorough",
            "evidence_file": f"/verif/evidence/{pid}.json",
            "replay_cmd_template": "./bin/vcheck replay {path}",
            "engine": "vcheck",
            "level_claimed": {"category": cat, "text": text, "design_ref": ref},
            "level_note": note,
            "technique": tech,
        })
    na = []
    for pid in props:
        if pid not in CHECKS:
            na.append({"property_id": pid, "reason": NOT_YET.get(pid, "check not built yet in this session (the technique applies; see DESIGN.md section 4); not claimed until its monitor is silent on the unchanged tree and validated against seeded changes")})
    m = {
        "version": 1,
        "setup_cmd": f"cd /verif/harness && {ENV} go build -o /verif/bin/vcheck ./cmd/vcheck && /verif/bin/vcheck selftest",
        "hooks": {
            "guard": "verif (Go build tag)",
            "enable": "the worker is built with `go build -tags verif` against `replace github.com/vbauerster/mpb/v8 => /repo`; the harness sets mpb.VerifHook once before the first container exists",
            "baseline_off_cmd": f"cd /repo && {ENV} go test -json -vet=off -count=1 -timeout 25m ./...",
            "source_commits": src,
            "add_only": True,
        },
        "engines": [
            {"name": "vcheck", "path": "/verif/harness", "serves_properties": sorted(CHECKS),
             "kind_free_text": "Go driver (cmd/vcheck) + worker (cmd/vworker) linked against /repo with -tags verif: seeded workload generators, hook-driven schedule perturbation, reference-model / trace oracles, terminal emulator, goroutine-state certificate, Go race detector, porcupine"},
        ],
        "checks": checks,
        "not_applicable": na,
        "notes": "All checks are runtime monitors over executions of the real library (see DESIGN.md). Exit 0 = held on everything observed; exit 1 + VIOLATION line = violation with replay file; exit 3 = inconclusive (too little observed; never on a healthy tree). Known findings: /verif/KNOWN_FINDINGS.jsonl.",
    }
    out = os.path.join(ROOT, "MANIFEST.json")
    json.dump(m, open(out, "w"), indent=1)
    try:
        import jsonschema
        jsonschema.validate(m, json.load(open("/root/.vp/MANIFEST.schema.json")))
        print("MANIFEST.json valid;", len(checks), "checks,", len(na), "not_applicable")
    except ImportError:
        print("written (jsonschema not available for validation)")

if __name__ == "__main__":
    main()
