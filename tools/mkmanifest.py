#!/usr/bin/env python3
"""Regenerates /verif/MANIFEST.json from the table below and validates it.
Run:  python3-vt tools/mkmanifest.py   (any python3 works; validation needs jsonschema)"""
import json, subprocess, sys, os

ROOT = "/verif"
ENV = "GOFLAGS=-mod=mod GOPROXY=off GOSUMDB=off GOTOOLCHAIN=local"

# property -> (category, technique, level text, level note, design ref)
CHECKS = {
 "C01": ("exploration",
   "runtime monitor: stuck-state certificate (two identical all-parked goroutine dumps with a still logical clock) + spin rule (a goroutine running library code in five dumps while the clock stands still for 5 s) + bounded-progress rule in completed render cycles, over generated terminating programs with hook-driven schedule perturbation",
   "~1000 (quick) / ~20000 (thorough) generated terminating programs (n in 0..200 bars vs queue lengths incl. n>q, auto/manual/none, synced and slow decorators with different counts per bar, pop mode, removal, queue-after chains, priority churn, concurrent Write, render delay, user wait group, cancel/Shutdown by step or hook trigger) run against the real library under seeded delays at 16 hook points (incl. targeted single-point delays, among them the bar actor itself) and GOMAXPROCS 1/2/4/16, plus 'swap' programs in which a bar with synchronised decorators leaves while a plain bar joins and 'queue' programs (bars queued behind bars that finished any number of frames ago); a hang is decided from goroutine states (deadlock) or from the number of completed render cycles after every bar is terminal (livelock), never from elapsed time.",
   "unbounded 'eventually' restated as the two safety forms of DESIGN 2.4; wall-clock watchdog firing = inconclusive; schedules are sampled",
   "DESIGN.md 2.4, 4/C01"),
 "C02": ("exploration",
   "runtime monitor: child-process crash attribution (panic / fatal error with a library frame), stuck-state certificate, and assertions on calls issued after Wait returned",
   "~1000 (quick) / ~20000 (thorough) call histories over the public Progress/Bar surface with the container-done event (natural end, ctx cancel, Shutdown) placed at random steps of client programs and at hook points via triggers; each scenario runs in a worker child whose death is attributed to the scenario logged last; after Wait: late Add -> (nil, ErrDone), late Write -> (0, ErrDone), late mutators (every public Bar method incl. both proxies) change nothing, getters stable, Bar.Wait/second Wait/Shutdown return.",
   "Add racing a Wait whose wait group is at zero is excluded by sync.WaitGroup's own contract (an anchor bar keeps the group above zero); documented panics excluded",
   "DESIGN.md 4/C02"),
 "C03": ("exploration",
   "runtime monitor: frame parser over the recorded output stream; last frame compared per bar with the post-Wait getters and the bar's on-complete/on-abort decoration spec; logical-clock check that nothing is written after Wait returned",
   "~800 (quick) / ~16000 (thorough) auto-refresh programs with last increments, aborts, SetTotal, cancel and Shutdown racing the ticker, early refreshes and Wait itself (incl. Wait invoked while clients still run); the last output write is parsed (self-describing marker rows) and each remaining bar must appear once, in the state read back after Wait, with its on-complete / on-abort texts; removed bars absent (natural endings); part busy ends every scenario by cancel/Shutdown while workers keep the bars' goroutines occupied (a bar nothing could have completed must then be shown aborted); the whole stream is also replayed through the terminal emulator, the final screen must be the last frame.",
   "final-frame clause checked for auto-refresh containers; in manual mode only the implied 'never shown running again after terminal' form",
   "DESIGN.md 4/C03, Appendix A"),
 "C05": ("exploration",
   "runtime monitor: per-frame membership oracle (once, contiguous, prompt w.r.t. cycle-exact hook timestamps, leaves only when allowed, per-bar render counter consecutive) over parsed frames; notifier list checked against the last frame",
   "~900 (quick) / ~18000 (thorough) histories of Add (from several clients while rendering), completion, abort with/without drop, removal, pop, queue-after, n>q, with up to ~150 frames each; every frame is parsed and the Appendix-A rules 1-4 are applied per bar, using the render.begin hook timestamps to decide which cycle a frame belongs to; a queued bar whose predecessor is gone must be drawn (hand-over rules shared with C17; part late: pop mode, successors created 0-5 frames after the predecessor finished).",
   "bars clipped by the output height are excluded; scenarios with a render delay or a render error are not judged (membership of unseen frames unknown)",
   "DESIGN.md 4/C05, Appendix A"),
 "C13": ("exploration",
   "runtime monitor: exactly-once / ordering checker over unique text payloads in the parsed output stream against the invoke/return history of Progress.Write",
   "~800 (quick) / ~16000 (thorough) programs with 1-9 writer goroutines (lines of 1-3000 bytes, multi-line writes) interleaved with render cycles, completion, the final render and shutdown, incl. writers that keep writing until well after Wait returned; every successful Write must appear once, untorn, above the rows of its frame, in an order consistent with real-time order, by the last frame; late writes must return (0, ErrDone) and emit nothing; a quarter of the programs dump 40-150 KiB in one Write; part lines: texts handed over in two pieces not aligned to lines, and one identical line written every cycle above unchanging rows (judged by multiplicity).",
   "'emitted by the last frame' only for auto-refresh containers once the first frame was written; manual: by the next rendered frame",
   "DESIGN.md 4/C13"),
 "C14": ("fault_enumeration",
   "runtime monitor: cancel/Shutdown placed by hook trigger at enumerated (hook point x occurrence) sites and at random steps of client programs; counters in shutdown-listener decorators, notifier reader, post-Wait getters, stuck-state certificate",
   "~800 (quick) / ~16000 (thorough) programs ended by context cancel or Shutdown placed at 13 hook points x occurrences 1-4 (mid render, between a bar's first and second terminal frame, in the heap manager, at bar exit, concurrently with Add) or at a random step; after Wait: no bar running, exactly one of Completed/Aborted, never-completed bars aborted, every listener decorator (wrapped 1-3 deep; some read their own bar, some take milliseconds) notified exactly once - counted at the moment Wait returns and again at the end -, exactly one notifier value without duplicates, listing every bar the last frame shows and does not retire; IsRunning is false for every bar the moment the cancel / Shutdown call returns.",
   "a trigger that has not fired when the clients are done is overtaken by the director (reported per site in the evidence)",
   "DESIGN.md 4/C14"),
 "C16": ("exploration",
   "runtime monitor: goroutine-dump poll after Wait returned and the notifier was read; a library goroutine that stays parked (same id, state, stack) over 5 polls is a leak",
   "~800 (quick) / ~16000 (thorough) programs on normal, cancel and Shutdown paths (early refresh, pop, queued bars, n>q, manual refresh channel abandoned, traverse racing with done); after each, runtime.Stack(all) is polled until no library frame remains.",
   "goroutines running harness callbacks are the harness' own; still-moving goroutines extend the poll and are never called leaks",
   "DESIGN.md 4/C16"),
 "C04": ("exploration",
   "runtime monitor: terminal emulator (ECMA-48 subset with scrollback) fed with the recorded output stream (a frame = what one render cycle wrote, however chunked); tape invariants checked after every frame; row groups complete (all extender lines, on the documented side); real pty for the terminal path",
   "~960 (quick) / ~19000 (thorough) programs whose frames change height every cycle (bars added, removed, popped, extender rows, 0-5 text lines per cycle) on in-memory outputs and on real ptys of 2-24 rows x 60-200 columns with bar counts below, at and above the height; after every frame the emulator's tape must equal persisted lines ++ frame rows, the persisted region is append-only and made exactly of written text and popped rows, no live row is in the scrollback, no autowrap, nothing stale below; nothing before a render delay is released; nothing at all for non-refreshing non-terminal outputs; part resize: the pty window is resized mid-run and every frame whose cycle began after the resize returned must fit the size in force (rows-1, columns); of resizes by different clients that overlap in time either may be the one in force.",
   "trusted base: the emulator (golden vectors re-checked by setup_cmd); across a window resize only 'each frame fits' is judged (what a terminal does to its content on a resize is its own business)",
   "DESIGN.md 2.5, 4/C04"),
 "C06": ("exploration",
   "runtime monitor: per-frame order oracle over parsed frames against the recorded priority history (invoke/return intervals vs cycle-exact hook timestamps), with applied / ambiguous / pending classification and the lazy-change exemption",
   "~900 (quick) / ~18000 (thorough) programs: deterministic manual-refresh sequences of up to 120 lazy/immediate priority updates on 2-40 bars with equal, distinct, negative and extreme values; auto-refresh programs with 2-4 clients changing priorities concurrently with rendering; pop-mode programs (finished bars must rise in finishing order, taken from the flush hook). Every frame not exempted by a lazy change must be sorted under some admissible assignment.",
   "successors are checked by the rank rule only; same-cycle finishers' mutual order follows the flush order",
   "DESIGN.md 4/C06"),
 "C10": ("exploration",
   "runtime monitors: (a) porcupine linearizability check of recorded invoke/return histories against the Appendix-B machine (non-deterministic after the terminal transition), partitioned per bar; (b) the Go race detector over scenario workers built with -race (harness clock, history and hook callback off)",
   "(a) ~600 (quick) / ~12000 (thorough) histories of 2-6 clients x 4-30 operations on 1-3 shared bars with render cycles, completion and bar-goroutine exit landing between and inside operations, the bar's goroutine held back after each operation it serves in two fifths of them (hook bar.op) so that client calls queue up at its channel; every per-bar history must have a sequential explanation by the documented rules, the final quiescent reads included. (b) ~520 (quick) / ~13000 (thorough) scenarios under -race: getters, Wait, SetPriority, traverse and proxies hammered on bars that are rendering, shutting down and already shut down while later frames are drawn, concurrent Add/Write, n>q, the render-error path, queue-after hand-overs, pop mode with late successors, several goroutines parked in Progress.Wait and the terminal path on a pty; any report with a library frame is a violation (deduplicated by the pair of first library functions).",
   "post-terminal updates are restricted to non-decreasing ones; porcupine timeout (60 s per bar) = inconclusive; race reports without a library frame are harness bugs and fail the check as such",
   "DESIGN.md 4/C10, Appendix B"),
 "C11": ("exploration",
   "runtime monitor: per-bar flag monitor fed by every client read, every frame's Statistics (marker rows) and the post-Wait getters, over histories that cross the terminal transition",
   "~1200 (quick) / ~24000 (thorough) programs with 1-4 clients issuing Abort at current==total, Abort on total<=0 bars, non-decreasing updates after Abort/completion, EnableTriggerComplete, SetTotal and getters, with cancel/Shutdown placed by trigger at bar.trigger / flush.bar / bar.exit; no observation may carry both flags, no flag may flip back (later = invoked after the earlier returned), after Wait exactly one holds, cancellation-only endings are aborted.",
   "post-terminal updates restricted to non-decreasing ones, as the property says",
   "DESIGN.md 4/C11"),
 "C12": ("exploration",
   "runtime monitor: column oracle over parsed frames: each row's decorator part is rebuilt from its own tokens with one common width per synchronised column (max of the needs incl. W and extra-space flag over the bars of that frame) and compared byte for byte",
   "~1000 (quick) / ~20000 (thorough) programs with 2-12 bars carrying 0-3 synchronised and plain decorators per side in every mix (different counts per bar, both sides, wrapped in on-complete/on-abort/meta wrappers 1-3 deep, slow decorators, text widths changing every frame, texts with two-column runes and combining marks) while bars are added, completed, removed, popped and replaced, incl. n>q.",
   "container wide enough that nothing is truncated; bars clipped by height would still take part, so these scenarios never clip",
   "DESIGN.md 4/C12"),
 "C15": ("fault_enumeration",
   "runtime monitor: fault injection at enumerated sites (k-th Fill of bar i, the first Fill of a frame rendered on the container's way out, k-th extender call, k-th output Write - total or partial -, k-th terminal-size query via dup2 on a pty) + stuck-state certificate + debug-output / frame / hook assertions",
   "~850 (quick) / ~17000 (thorough) programs with one injected render error (k in 1,2,3,5,random; failing bar anywhere in the order) while the other bars carry unequal numbers of synchronised and slow decorators; after the fault: Wait returns (no certificate), no crash, the debug output holds the error exactly once, no further render cycle or output write, no bar running.",
   "fault sites that were not reached (bar finished earlier) count as trivial",
   "DESIGN.md 4/C15"),
 "C17": ("exploration",
   "runtime monitor: frame oracle for queued bars (never together with the predecessor, hand-over in the very next frame when queued in time, prompt otherwise, predecessor's rank) + stuck-state certificate / bounded progress + Wait accounting",
   "~800 (quick) / ~16000 (thorough) programs enumerating the orders of {create predecessor, it finishes, it is flushed, create 1-3 successors, they finish} with chains up to 4, predecessors that complete / abort / are removed, in deterministic manual mode and in auto mode.",
   "rank rule applied when no priority update is in the scenario",
   "DESIGN.md 4/C17"),
 "C18": ("exploration",
   "runtime monitor: terminal emulator tape invariants specialised to pop mode: new persisted bar rows are exactly the final rows of the bars the flush hook reports as retired, each once, unchanged, on top, in order",
   "~900 (quick) / ~18000 (thorough) pop-mode programs (bars finishing in any order and in the same cycle, extender rows, text in between, no-pop bars, queue-after, removal flags) on in-memory outputs and on ptys of 2-24 rows; part late: bars queued after a bar that has already finished or popped out, later finishers rising above them; priority calls at any time; every row group complete and in its documented order also in the frame that retires it.",
   "a finished bar may still be live in the last frame",
   "DESIGN.md 4/C18"),
 "C07": ("exploration",
   "runtime monitor: width/UTF-8/termination assertions on every real Fill, Decor and rendered row for generated styles and widths; CPU-time/heap watchdog decides non-termination",
   "Real BarFiller.Fill, Decorator.Decor and whole rows (manually refreshed container) are executed for ~140k (quick) / ~2.5M (thorough) generated styles (empty, zero-width, wide, multi-rune components), widths 0..300 (0..40 swept fully), requested widths, wrappers and int64 values; each output's display width is recomputed with the harness' own table and compared with the allotted width / the reported width / the documented row layout; a call that burns >1.5 s CPU or >768 MiB heap is non-terminating.",
   "harness width table for the generated alphabet; ANSI colouring only through Meta wrappers; user fillers/decorators not held to the bound",
   "DESIGN.md 4/C07"),
 "C09": ("exploration",
   "runtime monitor: reference state machine compared with the real getters (and frame Statistics) after every step of generated sequential programs; exhaustive to length 3 (thorough 4) from seven initial totals up to MaxInt64; the container's Wait must return afterwards (certified otherwise)",
   "All operation sequences of length 3 (thorough: 4) over a 20-letter alphabet from 5 initial totals, plus random sequences up to length 40, are executed on real bars in non-refreshing, manual and auto containers; after every step Current/Completed/Aborted (manual: Statistics in a rendered frame) must equal the Appendix-B reference machine.",
   "reference machine transcribes the documented rules; overflowing sums excluded; stops at the first terminal transition",
   "DESIGN.md 4/C09, Appendix B"),
 "C19": ("exploration",
   "runtime monitor: scripted under-layer below the real proxies; both sides of the proxy, Bar.Current and a recording moving-average decorator are compared per call",
   "~3.8k (quick) / ~96k (thorough) scripted transfers through real ProxyReader/ProxyWriter over all 8 dynamic interface shapes x ewma x totals, with short/zero transfers, injected delays and errors at every position; bytes, n, err, Close forwarding, fast-path offering, Bar.Current and the delivered (n, duration) samples are checked, for the harness' recorders and, through recording averages, for the library's MovingAverageSpeed / MovingAverageETA (value x bytes must account for the time since the previous byte-moving transfer).",
   "duration bounds are nesting relations between measured intervals; samples after completion are optional",
   "DESIGN.md 4/C19"),
 "C20": ("exploration",
   "runtime monitor: read-back oracle (printed string parsed and compared in 300-bit arithmetic with the true value) over unit-boundary lattices and random values (all size/counter decorators, default formats included); recording moving average for the estimator clauses; the public EWMA constructors at a constant rate",
   "Every size/percentage/time/speed decorator output for ~220k (quick) / ~6M (thorough) generated (value, verb, flag, precision, route) cases is parsed back and must equal the true value within half a unit of the last printed digit with the largest fitting unit; sample sequences with n<=0 / zero durations must be conserved and reach the estimator through wrappers; elapsed/average speed must freeze on completion; estimators fed a varying rate must print a value between the extremes of their samples.",
   "documented domain only (0<=current<=total, <60 h); float eps 4e-16 relative",
   "DESIGN.md 4/C20"),
 "C08": ("exploration",
   "runtime monitor: reference-model oracle (big-integer expected fill) over an exhaustive boundary lattice + seeded random inputs + sorted chains, run against the real BarFiller",
   "Every Fill of the real library on ~1.2M (quick) / ~16M (thorough) (total,current,refill,width,style) tuples is compared with exact big-integer proportional fill; boundary lattice over int64 x widths is enumerated completely, monotonicity is checked on sorted chains; sequences of 24 frames are drawn by one filler instance with one of total/current/width/refill changing at a time. Held = no counterexample among the inputs run.",
   "harness width table for the generated runes; float rounding tolerance of one cell for totals > 2^40; body-width clause delegated to C07",
   "DESIGN.md 4/C08"),
}

NOT_YET = {
}

def main():
    props = [json.loads(l)["id"] for l in open(os.path.join(ROOT, "properties.jsonl"))]
    hooks_commits = subprocess.run(["git", "-C", "/repo", "log", "--format=%H %s"], capture_output=True, text=True).stdout.splitlines()
    src = [l.split()[0] for l in hooks_commits if "verif hooks" in l]
    checks = []
    for pid in props:
        if pid not in CHECKS:
            continue
        cat, tech, text, note, ref = CHECKS[pid]
        checks.append({
            "property_id": pid,
            "quick_cmd": f"./bin/vcheck run {pid} quick",
            "thorough_cmd": f"./bin/vcheck run {pid} thorough",
            "evidence_file": f"/verif/evidence/{pid}.json",
            "replay_cmd_template": "./bin/vcheck replay {path}",
            "engine": "vcheck",
            "level_claimed": {"category": cat, "text": text, "design_ref": ref},
            "level_note": note,
            "technique": tech,
        })
    na = []
    for pid in props:
        if pid not in CHECKS:
            na.append({"property_id": pid, "reason": NOT_YET.get(pid, "check not built yet in this session (the technique applies; see DESIGN.md section 4); not claimed until its monitor is silent on the unchanged tree and validated against seeded changes")})
    m = {
        "version": 1,
        "setup_cmd": f"cd /verif/harness && {ENV} go build -o /verif/bin/vcheck ./cmd/vcheck && /verif/bin/vcheck selftest",
        "hooks": {
            "guard": "verif (Go build tag)",
            "enable": "the worker is built with `go build -tags verif` against `replace github.com/vbauerster/mpb/v8 => /repo`; the harness sets mpb.VerifHook once before the first container exists",
            "baseline_off_cmd": f"cd /repo && {ENV} go test -json -vet=off -count=1 -timeout 25m ./...",
            "source_commits": src,
            "add_only": True,
        },
        "engines": [
            {"name": "vcheck", "path": "/verif/harness", "serves_properties": sorted(CHECKS),
             "kind_free_text": "Go driver (cmd/vcheck) + worker (cmd/vworker) linked against /repo with -tags verif: seeded workload generators, hook-driven schedule perturbation, reference-model / trace oracles, terminal emulator, goroutine-state certificate, Go race detector, porcupine"},
        ],
        "checks": checks,
        "not_applicable": na,
        "notes": "All checks are runtime monitors over executions of the real library (see DESIGN.md). Exit 0 = held on everything observed; exit 1 + VIOLATION line = violation with replay file; exit 3 = inconclusive (too little observed; never on a healthy tree). Known findings: /verif/KNOWN_FINDINGS.jsonl.",
    }
    out = os.path.join(ROOT, "MANIFEST.json")
    json.dump(m, open(out, "w"), indent=1)
    try:
        import jsonschema
        jsonschema.validate(m, json.load(open("/root/.vp/MANIFEST.schema.json")))
        print("MANIFEST.json valid;", len(checks), "checks,", len(na), "not_applicable")
    except ImportError:
        print("written (jsonschema not available for validation)")

if __name__ == "__main__":
    main()
