#!/bin/bash
# Mutation campaign, phase B (DESIGN.md section 14): run every check's quick tier
# against each mutant that passes the existing suite. Meant for
#   vp run --timeout 9h --with-repo -- tools/mut_phaseB.sh <indices-file> <out.tsv>
# (the snapshot of /repo is mutated in place and restored after each mutant; /repo
# itself and /verif are not touched). All twenty checks start at once; as soon as one
# reports a violation the rest are stopped (MUT_FULL=1: let all finish, for the matrix).
# One row per mutant: index, site, seconds, the checks that reported a violation (with
# the most frequent key), checks that ended otherwise than exit 0.
set -u
export GOFLAGS=-mod=mod GOPROXY=off GOSUMDB=off GOTOOLCHAIN=local
export VERIF_ROOT="$PWD"
idxfile="$1"; out="$2"
repo="${VP_RUN_REPO:?needs --with-repo}"
sed -i "s#=> /repo#=> ${repo}#" harness/go.mod
(cd harness && go build -o ../bin/vcheck ./cmd/vcheck && go build -o ../bin/vmut ./cmd/vmut) || exit 2
checks="C09 C07 C08 C19 C20 C02 C01 C03 C05 C11 C10 C14 C12 C16 C17 C06 C18 C04 C15 C13"
L=.work/mutB; mkdir -p $L
for i in $(cat "$idxfile"); do
  desc=$(./bin/vmut list "$repo" | sed -n "$((i+1))p" | cut -f2-)
  f=$(echo "$desc" | cut -f1 | cut -d: -f1)
  cp "$repo/$f" $L/bak
  ./bin/vmut apply "$repo" $i >/dev/null
  rm -f $L/*.log $L/*.done
  t0=$(date +%s)
  setsid bash -c "for c in $checks; do ( VERIF_SEED=1 VERIF_PAR=5 timeout 900 ./bin/vcheck run \$c quick > $L/\$c.log 2>&1; echo \"exit=\$?\" >> $L/\$c.log; touch $L/\$c.done ) & done; wait" &
  pg=$!
  while kill -0 $pg 2>/dev/null; do
    sleep 1
    if [ -z "${MUT_FULL:-}" ] && grep -qs "^VIOLATION" $L/*.log; then sleep 1; kill -KILL -- -$pg 2>/dev/null; break; fi
  done
  wait $pg 2>/dev/null
  pkill -KILL -f "$VERIF_ROOT/.work" 2>/dev/null
  cp $L/bak "$repo/$f"
  killed=""; inc=""
  for c in $checks; do
    [ -f $L/$c.log ] || continue
    if grep -q "^VIOLATION" $L/$c.log; then
      k=$(grep -o 'key=[^ ]*' $L/$c.log | sort | uniq -c | sort -rn | head -1 | awk '{print $2}')
      killed="$killed $c($k)"
    elif [ -f $L/$c.done ] && ! grep -q "exit=0" $L/$c.log; then inc="$inc $c[$(grep -o 'exit=[0-9]*' $L/$c.log | tail -1)]"; fi
  done
  printf "%d\t%s\t%ds\tKILLED:%s\tOTHER:%s\n" $i "$desc" $(( $(date +%s) - t0 )) "$killed" "$inc" | tee -a "$out"
  find replays -name "*.json" -delete 2>/dev/null; rm -rf .work/C[0-9][0-9]-*
done
