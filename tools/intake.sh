#!/bin/bash
# Takes a change delivered by a sub-agent (<dir> with patch.diff, demo_test.go,
# agent_meta.json), confirms it in the scratch worktree and runs the property's
# quick check against it.   tools/intake.sh <dir> <new-id e.g. C05-m6> [-race]
set -u
src="$1"; id="$2"; race="${3:-}"
cd /verif
mkdir -p seeded/$id
cp "$src/patch.diff" "$src/demo_test.go" "$src/agent_meta.json" seeded/$id/
echo "== confirm $id"
tools/confirm_mut.sh /verif/seeded/$id $race 2>&1 | tee seeded/$id/confirm.txt
echo "== quick check"
tools/seeded_run.sh seeded/$id | tee seeded/$id/quick.txt
