#!/bin/bash
# Takes a change delivered by a sub-agent (<dir> with patch.diff, demo_test.go,
# agent_meta.json), confirms it in the scratch worktree and runs the property's
# quick check against it.   tools/intake.sh <dir> <new-id e.g. C05-m6> [-race]
set -u
src="$1"; id="$2"; race="${3:-}"
cd /verif
mkdir -p seeded/$id
cp "$src/patch.diff" "$src/demo_test.go" "$src/agent_meta.json" seeded/$id/
# the agents' worktrees may be one hook commit behind /repo: re-derive the patch against HEAD when needed
if ! git -C /repo apply --check /verif/seeded/$id/patch.diff 2>/dev/null; then
  if git -C /repo apply --3way /verif/seeded/$id/patch.diff >/dev/null 2>&1 && ! git -C /repo diff HEAD | grep -q '^[+-]<<<<<<<'; then
    git -C /repo diff HEAD > /verif/seeded/$id/patch.diff; echo "patch re-derived against /repo HEAD (3-way)"
  else
    echo "PATCH DOES NOT APPLY to /repo HEAD"
  fi
  git -C /repo checkout -q HEAD -- . ; git -C /repo reset -q --hard HEAD
fi
echo "== confirm $id"
tools/confirm_mut.sh /verif/seeded/$id $race 2>&1 | tee seeded/$id/confirm.txt
echo "== quick check"
tools/seeded_run.sh seeded/$id | tee seeded/$id/quick.txt
