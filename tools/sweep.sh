#!/bin/bash
# Background sweep helper for `vp run`: builds the driver inside the snapshot and
# runs the given checks/tier/seeds there (VERIF_ROOT = snapshot), so /verif is untouched.
#   vp run -- tools/sweep.sh thorough "1 2" C01 C02 ...
set -u
export GOFLAGS=-mod=mod GOPROXY=off GOSUMDB=off GOTOOLCHAIN=local
export VERIF_ROOT="$PWD"
tier="$1"; seeds="$2"; shift 2
# with `vp run --with-repo` the sweep builds against the snapshot of /repo's HEAD
# instead of the live working tree (which may be carrying a seeded change)
if [ -n "${VP_RUN_REPO:-}" ]; then
  sed -i "s#=> /repo#=> ${VP_RUN_REPO}#" harness/go.mod
fi
(cd harness && go build -o ../bin/vcheck ./cmd/vcheck) || exit 2
rc=0
for s in $seeds; do
  for c in "$@"; do
    VERIF_SEED=$s ./bin/vcheck run "$c" "$tier" | grep -E "VIOLATION|key=|KNOWN|INCONCL|$c $tier" | cut -c1-400 || true
  done
done
exit $rc
