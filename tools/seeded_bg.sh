#!/bin/bash
# Background variant of seeded_run.sh for `vp run --with-repo`: every kept seeded
# change is applied to the SNAPSHOT of /repo (never /repo itself), the quick tier of
# the property's own check is run against it, the snapshot is restored.
#   vp run --with-repo -- tools/seeded_bg.sh <out.log> [seeded/C05-m1 ...]
# Output lines have the format tools/seeded_readme.py reads.
set -u
export GOFLAGS=-mod=mod GOPROXY=off GOSUMDB=off GOTOOLCHAIN=local
export VERIF_ROOT="$PWD"
out="$1"; shift
repo="${VP_RUN_REPO:?needs --with-repo}"
sed -i "s#=> /repo#=> ${repo}#" harness/go.mod
(cd harness && go build -o ../bin/vcheck ./cmd/vcheck) || exit 2
dirs="$@"; [ -z "$dirs" ] && dirs=$(ls -d seeded/C*-m*)
for d in $dirs; do
  prop=$(basename $d | cut -d- -f1)
  extra=$(cat $d/also_checks 2>/dev/null)
  git -C "$repo" apply "$PWD/$d/patch.diff" || { echo "$(basename $d): patch does not apply" | tee -a "$out"; continue; }
  line=""
  for c in $prop $extra; do
    o=$(VERIF_SEED=${VERIF_SEED:-1} VERIF_PAR=${VERIF_PAR:-8} ./bin/vcheck run "$c" quick 2>&1)
    verdict=$(echo "$o" | grep -E "^$c quick" | sed -E 's/.*seed=[0-9]+: ([a-z]+) .*violations=([0-9]+).*/\1 (\2)/')
    key=$(echo "$o" | grep -E "key=" | head -1 | sed -E 's/.*key=//' | cut -c1-70)
    line="$line $c=$verdict[$key];"
  done
  git -C "$repo" checkout -q -- . ; git -C "$repo" clean -fdq
  echo "$(basename $d):$line" | tee -a "$out"
  find replays -name "*.json" -delete 2>/dev/null; rm -rf .work/C[0-9][0-9]-*
done
