#!/bin/bash
# Runs ALL twenty quick checks against a change that is meant to preserve every
# property (false-alarm test): applies <patch> to /repo, runs, undoes.
#   tools/benign_run.sh <patch.diff> [checks...]
set -u
patch="$(readlink -f "$1")"; shift
checks="${*:-C01 C02 C03 C04 C05 C06 C07 C08 C09 C10 C11 C12 C13 C14 C15 C16 C17 C18 C19 C20}"
cd /verif
if ! git -C /repo diff --quiet; then echo "/repo working tree is not clean"; exit 2; fi
git -C /repo apply "$patch" || { echo "patch does not apply"; exit 2; }
trap 'git -C /repo checkout -- . ; git -C /repo clean -fdq' EXIT
export GOFLAGS=-mod=mod GOPROXY=off GOSUMDB=off GOTOOLCHAIN=local
(cd /repo && go build ./... && go build -tags verif ./...) || { echo "does not build"; exit 2; }
(cd /repo && go test -vet=off -count=1 ./... >/dev/null 2>&1) || echo "SUITE FAILS with this change"
for c in $checks; do
  out=$(VERIF_SEED=${VERIF_SEED:-1} ./bin/vcheck run "$c" quick 2>&1)
  echo "$out" | grep -E "key=" | sort | uniq -c | sort -rn | head -4 | cut -c1-260
  echo "$out" | grep -E "$c quick|INCONCL" | cut -c1-200
done
