#!/bin/bash
# Mutation campaign, phase A (DESIGN.md section 14): which mechanical mutants of the
# library compile and pass the existing suite. Works on scratch copies under /tmp/mutc
# (removed at the end); writes <out> with one line per mutant: index, status, site.
#   tools/mut_phaseA.sh <out.tsv> [workers]
set -u
out="$1"; W="${2:-8}"
export GOFLAGS=-mod=mod GOPROXY=off GOSUMDB=off GOTOOLCHAIN=local
N=$(/verif/bin/vmut list /repo | wc -l)
mkdir -p /tmp/mutc
for k in $(seq 0 $((W-1))); do
  (
    w=/tmp/mutc/w$k; rm -rf $w; mkdir -p $w
    rsync -a --exclude .git --exclude _examples --exclude _svg /repo/ $w/
    cd $w
    for i in $(seq $k $W $((N-1))); do
      if [ -f "$out.partial" ] && grep -q "^$i	" "$out.partial"; then continue; fi
      desc=$(/verif/bin/vmut list $w | sed -n "$((i+1))p" | cut -f2-)
      f=$(echo "$desc" | cut -f1 | cut -d: -f1)
      cp $f /tmp/mutc/bak$k
      /verif/bin/vmut apply $w $i >/dev/null
      if ! go build ./... >/dev/null 2>&1; then st=nobuild
      elif ! go vet -tags verif . ./decor ./cwriter ./internal >/dev/null 2>&1 && ! go build -tags verif ./... >/dev/null 2>&1; then st=nobuild
      elif ( ulimit -v 12000000; timeout 90 go test -vet=off -count=1 -timeout 40s ./... ) >/dev/null 2>&1; then st=survive
      else st=testfail; fi
      cp /tmp/mutc/bak$k $f
      printf "%d\t%s\t%s\n" $i $st "$desc" >> $out.$k
    done
    cd /; rm -rf $w /tmp/mutc/bak$k
  ) &
done
wait
cat $out.* | sort -n > $out; rm -f $out.[0-9]*
cut -f2 $out | sort | uniq -c
