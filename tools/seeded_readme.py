#!/usr/bin/env python3
"""Writes seeded/<id>/meta.json and seeded/README.md from the authors' notes
(agent_meta.json) and a log of tools/seeded_run.sh (one `<id>: Cxx=verdict (n)[key];` line per change).
   python3 tools/seeded_readme.py /tmp/mut/batch6.log"""
import json, os, re, sys
res = {}
for l in open(sys.argv[1]):
    m = re.match(r'(C\d+-m\d+): (.*)', l.strip())
    if m:
        res[m.group(1)] = m.group(2)
rows = []
root = '/verif/seeded'
for d in sorted(os.listdir(root)):
    p = os.path.join(root, d)
    if not os.path.isdir(p) or not os.path.exists(p + '/agent_meta.json'):
        continue
    am = json.load(open(p + '/agent_meta.json'))
    prop = d.split('-')[0]
    meta = {
        "id": d, "property": prop,
        "summary": am.get("summary"), "needs": am.get("needs"), "files": am.get("files"),
        "demo": "demo_test.go (package mpb_test; copy into the library root and run `go test -run <name> .`)",
        "demo_fail_rate_reported_by_author": am.get("demo_fail_rate"),
        "confirmed": "tools/confirm_mut.sh in a scratch worktree: the repository's suite passes with the change; the demonstration failed 3/3 with it and 0/3 without",
        "checks_run": "tools/seeded_run.sh (git -C /repo apply patch.diff; ./bin/vcheck run <property> quick; git -C /repo checkout -- .), VERIF_SEED=1",
        "result_quick": res.get(d, "(not run)"),
    }
    json.dump(meta, open(p + '/meta.json', 'w'), indent=1)
    rows.append((d, prop, str(am.get("summary") or "")[:170].replace("\n", " "), str(am.get("needs") or "")[:150].replace("\n", " "), res.get(d, "")))
caught = sum(1 for r in rows if 'violated' in r[4])
with open(os.path.join(root, 'README.md'), 'w') as f:
    f.write("# Seeded changes (written by independent sub-agents from the property text only)\n\n")
    f.write("Each directory holds `patch.diff` (applies to /repo), `demo_test.go` (fails with the change, passes without), `agent_meta.json` (the author's notes) and `meta.json` (what was confirmed and run here). Every change compiles and passes the repository's own 379 tests.\n\n")
    f.write("Re-run: `tools/seeded_run.sh [seeded/<id> ...]` (applies the patch to /repo, runs the property's quick check, undoes the patch).\n\n")
    f.write("%d changes kept; %d caught by the quick tier of the property's own check at VERIF_SEED=1.\n\n" % (len(rows), caught))
    f.write("| id | breaks | change | needs | quick tier result (violations) [first key] |\n|---|---|---|---|---|\n")
    for r in rows:
        f.write("| %s | %s | %s | %s | `%s` |\n" % (r[0], r[1], r[2].replace('|', '/'), r[3].replace('|', '/'), r[4].replace('|', '/')[:150]))
    f.write("\nWhich first-round and second-round misses led to which strengthening: DESIGN.md section 13.\n")
print(len(rows), "changes,", caught, "caught")
