#!/bin/bash
# Confirms a seeded change in a scratch worktree (/tmp/mut/confirm): existing suite
# passes with the change, the demonstration passes without and fails with it.
#   tools/confirm_mut.sh <dir containing patch.diff and demo_test.go> [-race]
set -u
d="$1"; race="${2:-}"
w=/tmp/mut/confirm
export GOFLAGS=-mod=mod GOPROXY=off GOSUMDB=off GOTOOLCHAIN=local
[ -d $w ] || { mkdir -p /tmp/mut; git -C /repo worktree prune; git -C /repo worktree add -q --detach $w HEAD || exit 2; }
cd $w || exit 2
git checkout -q --detach $(git -C /repo rev-parse HEAD)
git checkout -q -- . ; git clean -fdq
name=$(grep -o 'func Test[A-Za-z0-9_]*' "$d/demo_test.go" | head -1 | sed 's/func //')
cp "$d/demo_test.go" $w/zz_demo_test.go
echo "demo test: $name"
without=0
for i in 1 2 3; do timeout 300 go test $race -vet=off -count=1 -run "^$name\$" . >/tmp/mut/confirm.log 2>&1 || without=$((without+1)); done
echo "without change: failed $without/3"
git apply "$d/patch.diff" || { echo "PATCH DOES NOT APPLY"; rm -f $w/zz_demo_test.go; exit 2; }
rm -f $w/zz_demo_test.go
if timeout 600 go test -vet=off -count=1 ./... >/tmp/mut/confirm.log 2>&1; then echo "existing suite: PASS with change"; else echo "existing suite: FAIL with change"; tail -5 /tmp/mut/confirm.log; fi
cp "$d/demo_test.go" $w/zz_demo_test.go
with=0
for i in 1 2 3; do timeout 300 go test $race -vet=off -count=1 -run "^$name\$" . >/tmp/mut/confirm.log 2>&1 || with=$((with+1)); done
echo "with change: failed $with/3"
rm -f $w/zz_demo_test.go
git checkout -q -- . ; git clean -fdq
