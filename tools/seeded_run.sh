#!/bin/bash
# Runs the quick tier of the given checks (default: the change's own property)
# against every kept seeded change and prints/records which fire.
#   tools/seeded_run.sh [seeded/C05-m1 ...]
cd /verif
dirs="$@"; [ -z "$dirs" ] && dirs=$(ls -d seeded/C*-m*)
for d in $dirs; do
  prop=$(basename $d | cut -d- -f1)
  extra=$(cat $d/also_checks 2>/dev/null)
  line=""
  for c in $prop $extra; do
    out=$(tools/runmut.sh /verif/$d/patch.diff quick $c 2>&1)
    verdict=$(echo "$out" | grep -E "^$c quick" | sed -E 's/.*seed=[0-9]+: ([a-z]+) .*violations=([0-9]+).*/\1 (\2)/')
    key=$(echo "$out" | grep -E "key=" | head -1 | sed -E 's/.*key=//' | cut -c1-70)
    line="$line $c=$verdict[$key];"
  done
  echo "$(basename $d):$line"
done
