#!/usr/bin/env python3
"""Mutation campaign report (DESIGN.md section 14).

Inputs : mutation/phaseA.tsv   index, status (nobuild|testfail|survive), file:line, operator, detail
         mutation/phaseB.tsv   index, file:line, operator, detail, seconds, KILLED: checks(keys), OTHER: ...
         mutation/triage.tsv   index, class (equivalent|out-of-scope|instrumentation|gap-closed|gap-open), note
Output : mutation/README.md
"""
import collections, os, sys

root = os.path.join(os.path.dirname(os.path.abspath(__file__)), "..", "mutation")
A = {}
for l in open(os.path.join(root, "phaseA.tsv")):
    f = l.rstrip("\n").split("\t", 4)
    A[int(f[0])] = f
B = {}
for l in open(os.path.join(root, "phaseB.tsv")):
    f = l.rstrip("\n").split("\t")
    if len(f) < 7:
        continue
    B[int(f[0])] = f  # a later row (re-run after strengthening) replaces an earlier one
T = {}
tp = os.path.join(root, "triage.tsv")
if os.path.exists(tp):
    for l in open(tp):
        if l.startswith("#") or not l.strip():
            continue
        f = l.rstrip("\n").split("\t", 2)
        T[int(f[0])] = (f[1], f[2] if len(f) > 2 else "")

stat = collections.Counter(v[1] for v in A.values())
killed = {i: f for i, f in B.items() if f[5].strip() != "KILLED:"}
surv = {i: f for i, f in B.items() if f[5].strip() == "KILLED:"}
by_check = collections.Counter()
for f in killed.values():
    for tok in f[5].replace("KILLED:", "").split():
        by_check[tok.split("(")[0]] += 1
cls = collections.Counter(T.get(i, ("untriaged", ""))[0] for i in surv)

out = []
w = out.append
w("# Mechanical mutation campaign\n")
w("Method: DESIGN.md section 14. `bin/vmut list /repo` enumerates the sites; phase A = does the mutant compile and pass the repository's own 379 tests; phase B = every quick check against each mutant that does.\n")
w("| | mutants |\n|---|---|")
w(f"| sites | {len(A)} |")
w(f"| do not compile | {stat['nobuild']} |")
w(f"| rejected by the repository's own suite | {stat['testfail']} |")
w(f"| compile and pass the suite | {stat['survive']} |")
w(f"| of those, run through all twenty quick checks | {len(B)} |")
w(f"| reported as a violation by at least one check | {len(killed)} |")
w(f"| not reported by any check | {len(surv)} |")
w("")
w("Not reported, by class (every one looked at by hand, `triage.tsv`):\n")
w("| class | mutants |\n|---|---|")
for k, v in sorted(cls.items()):
    w(f"| {k} | {v} |")
w("")
w("Violations per check (a mutant can be reported by several; with early stop only the fastest reporters are counted):\n")
w("| check | mutants reported |\n|---|---|")
for k, v in sorted(by_check.items()):
    w(f"| {k} | {v} |")
w("")
b2 = os.path.join(root, "phaseB2.tsv")
if os.path.exists(b2):
    rows = [l.rstrip("\n").split("\t") for l in open(b2) if l.strip()]
    k2 = [r for r in rows if len(r) >= 6 and r[5].strip() != "KILLED:"]
    w(f"Confirmation pass (`phaseB2.tsv`): the {len(rows)} mutants classified `gap-closed` re-run against the final checks: {len(k2)} reported, {len(rows) - len(k2)} not.\n")
w("## Mutants no check reported in the first pass\n")
w("| index | site | mutation | class | note |\n|---|---|---|---|---|")
for i in sorted(surv):
    f = surv[i]
    c, n = T.get(i, ("untriaged", ""))
    w(f"| {i} | {f[1]} | {f[2]} `{f[3].replace('|', '¦')}` | {c} | {n.replace('|', '¦')} |")
open(os.path.join(root, "README.md"), "w").write("\n".join(out) + "\n")
print(f"sites={len(A)} pass-suite={stat['survive']} run={len(B)} killed={len(killed)} not-reported={len(surv)} classes={dict(cls)}")
