#!/bin/bash
# Runs checks against a seeded change: applies <patch> to /repo's working tree,
# runs the given checks, and always undoes the patch afterwards.
#   tools/runmut.sh <patch.diff> <tier> C05 [C01 ...]
set -u
patch="$1"; tier="$2"; shift 2
cd /verif
if ! git -C /repo diff --quiet; then echo "/repo working tree is not clean"; exit 2; fi
git -C /repo apply "$patch" || { echo "patch does not apply"; exit 2; }
trap 'git -C /repo checkout -- . ; git -C /repo clean -fdq' EXIT
export GOFLAGS=-mod=mod GOPROXY=off GOSUMDB=off GOTOOLCHAIN=local
(cd /repo && go build ./... ) || { echo "does not build"; exit 2; }
for c in "$@"; do
  out=$(VERIF_SEED=${VERIF_SEED:-1} ./bin/vcheck run "$c" "$tier" 2>&1)
  echo "$out" | grep -E "key=" | sort | uniq -c | sort -rn | head -5 | cut -c1-220
  echo "$out" | grep -E "$c $tier" | cut -c1-200
done
