package main

// C08: the filled part of a bar is proportional to progress and never moves
// backwards. Oracle: classify every cell of BarFiller.Fill's output by rune
// and compare the number of filled cells with round(inner*current/total)
// computed in big-integer arithmetic.

import (
	"bytes"
	"fmt"
	"math/big"
	"sort"
	"unicode/utf8"

	mpb "github.com/vbauerster/mpb/v8"
	"github.com/vbauerster/mpb/v8/decor"

	"verif/harness/internal/common"
	"verif/harness/internal/vterm"
)

func init() { runners["C08"] = runC08 }

type fillStyle struct {
	Name       string   `json:"name"`
	L, R       string   `json:"-"`
	Refiller   string   `json:"-"`
	Filler     string   `json:"-"`
	Tips       []string `json:"-"`
	Padding    string   `json:"-"`
	Rev        bool     `json:"rev,omitempty"`
	TipOnCompl bool     `json:"tip_on_complete,omitempty"`
}

func (s fillStyle) build() mpb.BarFiller {
	c := mpb.BarStyle().Lbound(s.L).Rbound(s.R).Refiller(s.Refiller).Filler(s.Filler).Padding(s.Padding).Tip(s.Tips...)
	if s.Rev {
		c = c.Reverse()
	}
	if s.TipOnCompl {
		c = c.TipOnComplete()
	}
	return c.Build()
}

// maxRune is the widest component that takes part in filling.
func (s fillStyle) maxRune(withRefill bool) int {
	m := vterm.StringWidth(s.Filler)
	for _, t := range s.Tips {
		if w := vterm.StringWidth(t); w > m {
			m = w
		}
	}
	if withRefill {
		if w := vterm.StringWidth(s.Refiller); w > m {
			m = w
		}
	}
	if m < 1 {
		m = 1
	}
	return m
}

var c08Styles = []fillStyle{
	{Name: "ascii", L: "[", R: "]", Refiller: "+", Filler: "=", Tips: []string{">"}, Padding: "-"},
	{Name: "ascii-rev", L: "[", R: "]", Refiller: "+", Filler: "=", Tips: []string{"<"}, Padding: "-", Rev: true},
	{Name: "ascii-tipOnComplete", L: "[", R: "]", Refiller: "+", Filler: "=", Tips: []string{">"}, Padding: "-", TipOnCompl: true},
	{Name: "ascii-3tips", L: "|", R: "|", Refiller: "+", Filler: "#", Tips: []string{">", "}", ")"}, Padding: "."},
	{Name: "nobounds", L: "", R: "", Refiller: "+", Filler: "=", Tips: []string{">"}, Padding: "-"},
	{Name: "notip", L: "[", R: "]", Refiller: "+", Filler: "=", Tips: []string{""}, Padding: "-"},
	{Name: "wide-all", L: "[", R: "]", Refiller: "ぬ", Filler: "の", Tips: []string{"だ"}, Padding: "つ"},
	{Name: "wide-all-rev-tipOnComplete", L: "[", R: "]", Refiller: "ぬ", Filler: "の", Tips: []string{"だ"}, Padding: "つ", Rev: true, TipOnCompl: true},
	{Name: "wide-filler", L: "[", R: "]", Refiller: "+", Filler: "の", Tips: []string{">"}, Padding: "-"},
	{Name: "wide-tip", L: "[", R: "]", Refiller: "+", Filler: "=", Tips: []string{"だ"}, Padding: "-"},
	{Name: "wide-padding", L: "[", R: "]", Refiller: "+", Filler: "=", Tips: []string{">"}, Padding: "つ"},
	{Name: "wide-bounds", L: "【", R: "】", Refiller: "+", Filler: "=", Tips: []string{">"}, Padding: "-"},
	{Name: "multi-rune-bounds", L: "<<", R: ">>", Refiller: "+", Filler: "=", Tips: []string{"*"}, Padding: "-"},
}

type c08Case struct {
	Total     int64  `json:"total"`
	Current   int64  `json:"current"`
	Refill    int64  `json:"refill"`
	Avail     int    `json:"avail"`
	Req       int    `json:"req"`
	Style     int    `json:"style"`
	StyleName string `json:"style_name"`
	Completed bool   `json:"completed"`
}

type fillCount struct {
	l, r, refill, fill, tip, pad, ell, other int
	order                                    string // sequence of classes, run-length collapsed
	raw                                      string
}

// classify counts display cells per component.
func classify(st fillStyle, out string) fillCount {
	var fc fillCount
	fc.raw = out
	cls := func(seg string) (byte, int) {
		switch {
		case seg == "…":
			return 'e', 1
		case st.Filler != "" && seg == st.Filler:
			return 'f', vterm.StringWidth(seg)
		case st.Refiller != "" && seg == st.Refiller:
			return 'r', vterm.StringWidth(seg)
		case st.Padding != "" && seg == st.Padding:
			return 'p', vterm.StringWidth(seg)
		}
		for _, t := range st.Tips {
			if t != "" && seg == t {
				return 't', vterm.StringWidth(seg)
			}
		}
		return '?', vterm.StringWidth(seg)
	}
	body := out
	if st.L != "" {
		if len(body) >= len(st.L) && body[:len(st.L)] == st.L {
			fc.l = vterm.StringWidth(st.L)
			body = body[len(st.L):]
		}
	}
	if st.R != "" {
		if len(body) >= len(st.R) && body[len(body)-len(st.R):] == st.R {
			fc.r = vterm.StringWidth(st.R)
			body = body[:len(body)-len(st.R)]
		}
	}
	var last byte
	for len(body) > 0 {
		_, n := utf8.DecodeRuneInString(body)
		seg := body[:n]
		body = body[n:]
		c, w := cls(seg)
		switch c {
		case 'e':
			fc.ell += w
		case 'f':
			fc.fill += w
		case 'r':
			fc.refill += w
		case 'p':
			fc.pad += w
		case 't':
			fc.tip += w
		default:
			fc.other += w
		}
		if c != last {
			fc.order += string(c)
			last = c
		}
	}
	return fc
}

var big1 = big.NewInt(1)

// expectedCells = round-half-away-from-zero(inner*current/total) in exact arithmetic.
func expectedCells(total, current int64, inner int) int {
	if total <= 0 || current <= 0 || inner <= 0 {
		return 0
	}
	if current >= total {
		return inner
	}
	num := new(big.Int).Mul(big.NewInt(int64(inner)), big.NewInt(current))
	num.Mul(num, big.NewInt(2))
	num.Add(num, big.NewInt(total))
	den := new(big.Int).Mul(big.NewInt(2), big.NewInt(total))
	q := new(big.Int).Div(num, den) // floor((2*i*c + t) / (2t)) = round half up
	return int(q.Int64())
}

func innerWidth(st fillStyle, req, avail int) int {
	w := avail
	if req >= 1 && req <= avail {
		w = req
	}
	return w - vterm.StringWidth(st.L) - vterm.StringWidth(st.R)
}

// checkFill runs one Fill and applies the point-wise clauses. It returns the
// number of filled cells and a violation message ("" = held).
func checkFill(filler mpb.BarFiller, st fillStyle, c c08Case) (filled int, inner int, msg string) {
	var buf bytes.Buffer
	stat := decor.Statistics{AvailableWidth: c.Avail, RequestedWidth: c.Req, Total: c.Total, Current: c.Current, Refill: c.Refill, Completed: c.Completed}
	err := filler.Fill(&buf, stat)
	if err != nil {
		return 0, 0, fmt.Sprintf("Fill returned error %v", err)
	}
	out := buf.String()
	inner = innerWidth(st, c.Req, c.Avail)
	if inner < 0 {
		if out != "" {
			return 0, inner, fmt.Sprintf("inner width %d < 0 but Fill wrote %q", inner, out)
		}
		return 0, inner, ""
	}
	if !utf8.ValidString(out) {
		return 0, inner, fmt.Sprintf("invalid UTF-8 %q", out)
	}
	fc := classify(st, out)
	if fc.other != 0 {
		return 0, inner, fmt.Sprintf("unclassifiable cells in %q", out)
	}
	filled = fc.refill + fc.fill + fc.tip
	body := filled + fc.pad + fc.ell
	if body != inner {
		// an over/underfull body is C07's clause ("occupies exactly the width
		// allotted"); C08 only judges proportionality, so the case is skipped here
		return filled, -2, ""
	}
	exp := expectedCells(c.Total, c.Current, inner)
	r := st.maxRune(c.Refill != 0)
	tol := r - 1
	if c.Total > 1<<40 {
		tol++ // float rounding at exact halves for huge totals (DESIGN C08 S-note)
	}
	switch {
	case c.Total <= 0 || c.Current <= 0:
		if filled != 0 {
			return filled, inner, fmt.Sprintf("filled=%d but current=%d total=%d must draw no progress: %q", filled, c.Current, c.Total, out)
		}
	case c.Current >= c.Total:
		if filled > inner || filled < inner-(r-1) {
			return filled, inner, fmt.Sprintf("filled=%d of inner=%d although current>=total (widest rune %d): %q", filled, inner, r, out)
		}
	default:
		if filled < exp-tol || filled > exp+tol {
			return filled, inner, fmt.Sprintf("filled=%d, expected round(%d*%d/%d)=%d (tolerance %d): %q", filled, inner, c.Current, c.Total, exp, tol, out)
		}
	}
	if fc.refill > filled {
		return filled, inner, fmt.Sprintf("refill segment %d exceeds filled %d: %q", fc.refill, filled, out)
	}
	if c.Refill > 0 && c.Refill <= c.Current && c.Total > 0 {
		// refill share is itself proportional (within rune granularity)
		rexp := expectedCells(c.Total, c.Refill, inner)
		rw := vterm.StringWidth(st.Refiller)
		if rw < 1 {
			rw = 1
		}
		if fc.refill > rexp+tol+r || (fc.refill < rexp-tol-r-rw && filled >= rexp) {
			return filled, inner, fmt.Sprintf("refill cells %d, expected about %d: %q", fc.refill, rexp, out)
		}
	}
	// layout: components contiguous and in order
	want := "rftpe"
	if st.Rev {
		want = "petfr"
	}
	if !isSubsequence(fc.order, want) {
		return filled, inner, fmt.Sprintf("component order %q not a subsequence of %q: %q", fc.order, want, out)
	}
	return filled, inner, ""
}

func isSubsequence(s, of string) bool {
	j := 0
	for i := 0; i < len(s); i++ {
		for j < len(of) && of[j] != s[i] {
			j++
		}
		if j == len(of) {
			return false
		}
		j++
	}
	return true
}

var c08Bounds = []int64{0, 1, 2, 3, 7, 10, 99, 100, 101, 1 << 31, 1<<31 - 1, 1<<31 + 1, 1 << 32, 1<<53 - 1, 1 << 53, 1<<53 + 1, 1 << 56, 1 << 57, 1<<57 + 1, 1 << 58, 1 << 60, 1 << 61, 1 << 62, 1<<62 + 1, 1<<63 - 2, 1<<63 - 1, -1, -100, -(1 << 62), -1 << 63}
var c08Widths = []int{0, 1, 2, 3, 4, 5, 79, 80, 81, 200, 1000}

func runC08(job common.Job, em *emitter) {
	for idx := job.From; idx < job.To; idx++ {
		em.Begin(idx, map[string]interface{}{"part": job.Part, "chunk": idx})
		res := common.Result{Idx: idx, Prop: "C08", Status: common.Held, Obs: map[string]int64{}}
		sigs := sigset{}
		var samples []interface{}
		addViol := func(msg, key string, c interface{}) {
			res.Status = common.Violated
			v := common.Violation{Msg: msg, Key: key, Replay: mustJSON(map[string]interface{}{"part": job.Part, "case": c})}
			if res.Msg == "" {
				res.Msg, res.Key, res.Replay = v.Msg, v.Key, v.Replay
			} else if len(res.Extra) < 4 {
				res.Extra = append(res.Extra, v)
			}
		}
		one := func(c c08Case, filler mpb.BarFiller, st fillStyle) int {
			res.Evals++
			var filled, inner int
			var msg string
			func() {
				defer func() {
					if r := recover(); r != nil {
						msg = fmt.Sprintf("panic in Fill: %v", r)
					}
				}()
				filled, inner, msg = checkFill(filler, st, c)
			}()
			if inner > 0 && c.Total > 0 {
				res.NonTrivial++
				sigs.add(c.Total, c.Current, c.Refill, c.Avail, c.Req, c.Style, c.Completed)
			}
			if msg != "" {
				addViol(msg, c08Key(c, msg), c)
			}
			if len(samples) < 2 && inner > 3 && c.Current > 0 && c.Current < c.Total {
				samples = append(samples, map[string]interface{}{"case": c, "filled_cells": filled, "inner": inner, "expected": expectedCells(c.Total, c.Current, inner)})
			}
			return filled
		}
		if job.Replay != "" {
			var rc struct {
				Replay struct {
					Part  string    `json:"part"`
					Case  c08Case   `json:"case"`
					Chain []c08Case `json:"chain"`
					Seq   []c08Case `json:"sequence"`
				} `json:"replay"`
			}
			readReplay(job.Replay, &rc)
			if len(rc.Replay.Seq) > 0 {
				c08Seq(rc.Replay.Seq, &res, sigs, addViol)
			} else if len(rc.Replay.Chain) > 0 {
				c08Chain(rc.Replay.Chain, &res, sigs, addViol)
			} else {
				st := c08Styles[rc.Replay.Case.Style]
				one(rc.Replay.Case, st.build(), st)
			}
			res.Sigs = sigs.list()
			em.Res(res)
			continue
		}
		rng := common.NewRng(common.H(job.Seed, "C08", job.Part, idx))
		switch job.Part {
		case "lattice":
			// exhaustive over bounds x bounds x widths; the style axis is split over the chunks
			nst := len(c08Styles)
			for si := idx % nst; si < nst; si += 16 {
				st := c08Styles[si]
				filler := st.build()
				for _, t := range c08Bounds {
					for _, cur := range c08Bounds {
						for _, w := range c08Widths {
							comp := t > 0 && cur == t
							c := c08Case{Total: t, Current: cur, Avail: w, Style: si, StyleName: st.Name, Completed: comp}
							one(c, filler, st)
							if t <= 0 && cur == t {
								// a bar of unknown total completed while its total is still
								// not positive (SetTotal(-1, true) on an empty input): completed,
								// and still nothing to fill
								c.Completed = true
								one(c, filler, st)
								c.Completed = false
							}
							if cur > 0 {
								c.Refill = cur / 3
								one(c, filler, st)
							}
						}
					}
				}
				// neighbours of total
				for _, t := range c08Bounds {
					if t <= 2 {
						continue
					}
					for _, d := range []int64{-2, -1, 0, 1} {
						cur := t + d
						if d > 0 && t == 1<<63-1 {
							continue
						}
						for _, w := range c08Widths {
							one(c08Case{Total: t, Current: cur, Avail: w, Req: w / 2, Style: si, StyleName: st.Name, Completed: cur == t}, filler, st)
						}
					}
				}
			}
			res.Obs["lattice_exhaustive_chunks"] = 1
		case "random":
			for k := 0; k < 20000; k++ {
				si := rng.Intn(len(c08Styles))
				st := c08Styles[si]
				t := randI64(rng)
				var cur int64
				switch rng.Intn(6) {
				case 0:
					cur = randI64(rng)
				case 1:
					cur = t
				default:
					if t > 0 {
						cur = rng.I64n(t)
					} else {
						cur = randI64(rng)
					}
				}
				var refill int64
				if cur > 0 && rng.Chance(1, 3) {
					refill = rng.I64n(cur + 1)
				} else if rng.Chance(1, 20) {
					refill = randI64(rng)
				}
				w := rng.Pick(rng.Intn(12), rng.Intn(120), rng.Intn(400), 80, 100)
				req := 0
				if rng.Chance(1, 3) {
					req = rng.Range(-1, w+20)
				}
				comp := t > 0 && cur == t && rng.Chance(9, 10)
				one(c08Case{Total: t, Current: cur, Refill: refill, Avail: w, Req: req, Style: si, StyleName: st.Name, Completed: comp}, st.build(), st)
			}
		case "mono":
			for k := 0; k < 200; k++ {
				si := rng.Intn(len(c08Styles))
				st := c08Styles[si]
				if len(st.Tips) > 1 {
					si, st = 0, c08Styles[0]
				}
				t := randI64(rng)
				if t <= 0 {
					t = 1 + rng.I64n(1<<62)
				}
				w := rng.Pick(rng.Range(3, 12), rng.Range(3, 120), 80, 100, rng.Range(3, 400))
				n := 50
				cs := make([]int64, n)
				for i := range cs {
					switch rng.Intn(4) {
					case 0:
						cs[i] = rng.I64n(t)
					case 1:
						cs[i] = t - rng.I64n(common.ClampI64(t, 1, 1000))
					case 2:
						cs[i] = rng.I64n(common.ClampI64(t, 1, 1000))
					default:
						// near a cell boundary
						cell := rng.I64n(int64(w) + 1)
						f := new(big.Int).Mul(big.NewInt(t), big.NewInt(2*cell+1))
						f.Div(f, big.NewInt(2*int64(w)))
						v := f.Int64() + int64(rng.Range(-2, 2))
						cs[i] = common.ClampI64(v, 0, t)
					}
				}
				cs[n-1] = t
				sort.Slice(cs, func(i, j int) bool { return cs[i] < cs[j] })
				chain := make([]c08Case, n)
				for i := range cs {
					chain[i] = c08Case{Total: t, Current: cs[i], Avail: w, Style: si, StyleName: st.Name, Completed: cs[i] == t}
				}
				c08Chain(chain, &res, sigs, addViol)
			}
			// one filler instance drawing a sequence of frames between which one of
			// total / current / width / refill changes while the others stay (a bar of
			// unknown total whose total is set later, a resized terminal, a retry that
			// sets a refill mark): every frame is held to the exact expectation
			for k := 0; k < 120; k++ {
				si := rng.Intn(len(c08Styles))
				st := c08Styles[si]
				t := 1 + rng.I64n(int64(rng.Pick(100, 100000, 1<<40)))
				cur := rng.I64n(t + 1)
				w := rng.Pick(rng.Range(3, 12), rng.Range(3, 120), 80, 100)
				var refill int64
				var seq []c08Case
				for i := 0; i < 24; i++ {
					switch rng.Intn(4) {
					case 0:
						t = cur + rng.I64n(3*t+1) // total changes, current does not
						if t <= 0 {
							t = 1
						}
					case 1:
						cur = rng.I64n(t + 1)
					case 2:
						w = rng.Pick(rng.Range(3, 12), rng.Range(3, 120), 80, 100)
					default:
						refill = rng.I64n(cur + 1)
					}
					if refill > cur {
						refill = cur
					}
					seq = append(seq, c08Case{Total: t, Current: cur, Refill: refill, Avail: w, Style: si, StyleName: st.Name, Completed: cur == t})
				}
				c08Seq(seq, &res, sigs, addViol)
			}
		}
		res.Sigs = sigs.list()
		if len(samples) > 0 {
			res.Sample = mustJSON(samples[0])
		}
		em.Res(res)
	}
}

func c08Chain(chain []c08Case, res *common.Result, sigs sigset, addViol func(msg, key string, c interface{})) {
	if len(chain) == 0 {
		return
	}
	st := c08Styles[chain[0].Style]
	filler := st.build()
	prev, prevCur := -1, int64(0)
	r := st.maxRune(false)
	for _, c := range chain {
		res.Evals++
		filled, inner, msg := 0, 0, ""
		func() {
			defer func() {
				if rr := recover(); rr != nil {
					msg = fmt.Sprintf("panic in Fill: %v", rr)
				}
			}()
			filled, inner, msg = checkFill(filler, st, c)
		}()
		if inner > 0 {
			res.NonTrivial++
			sigs.add("chain", c.Total, c.Current, c.Avail, c.Style)
		}
		if msg != "" {
			addViol(msg, c08Key(c, msg), c)
		}
		if inner == -2 {
			continue // body not drawn to its allotted width: C07's business
		}
		if prev >= 0 && filled < prev-(r-1) {
			addViol(fmt.Sprintf("fill moved backwards: current %d -> %d of %d at width %d drew %d -> %d cells", prevCur, c.Current, c.Total, c.Avail, prev, filled),
				"mono:"+c08Region(c), map[string]interface{}{"chain": chain})
			return
		}
		prev, prevCur = filled, c.Current
	}
}

// c08Seq draws the cases one after the other with ONE filler instance (as a bar
// does over its lifetime) and holds every frame to the exact expectation.
func c08Seq(seq []c08Case, res *common.Result, sigs sigset, addViol func(msg, key string, c interface{})) {
	if len(seq) == 0 {
		return
	}
	st := c08Styles[seq[0].Style]
	filler := st.build()
	for i, c := range seq {
		res.Evals++
		inner, msg := 0, ""
		func() {
			defer func() {
				if rr := recover(); rr != nil {
					msg = fmt.Sprintf("panic in Fill: %v", rr)
				}
			}()
			_, inner, msg = checkFill(filler, st, c)
		}()
		if inner > 0 {
			res.NonTrivial++
			sigs.add("seq", i, c.Total, c.Current, c.Refill, c.Avail, c.Style)
		}
		if msg != "" {
			addViol(fmt.Sprintf("frame %d of a sequence drawn by one filler: %s", i, msg), "seq:"+c08Key(c, msg), map[string]interface{}{"sequence": seq[:i+1]})
			return
		}
	}
}

func c08Region(c c08Case) string {
	big := "small"
	if c.Total > 1<<53 || c.Current > 1<<53 {
		big = "huge"
	} else if c.Total > 1<<31 {
		big = "large"
	}
	return big
}

func c08Key(c c08Case, msg string) string {
	kind := "fill"
	switch {
	case len(msg) > 5 && msg[:5] == "panic":
		kind = "panic"
	case len(msg) > 4 && msg[:4] == "body":
		kind = "body"
	case len(msg) > 6 && msg[:6] == "refill":
		kind = "refill"
	case len(msg) > 9 && msg[:9] == "component":
		kind = "order"
	}
	return kind + ":" + c08Region(c) + ":" + c.StyleName
}

// randI64 draws from a mixture that favours boundaries.
func randI64(r *common.Rng) int64 {
	switch r.Intn(8) {
	case 0:
		return c08Bounds[r.Intn(len(c08Bounds))]
	case 1:
		return int64(r.Intn(1000))
	case 2:
		return r.I64n(1 << 32)
	case 3:
		return (1 << 62) + r.I64n(1<<62)
	case 4:
		sh := uint(r.Intn(63))
		return (int64(1) << sh) + int64(r.Range(-2, 2))
	case 5:
		return -r.I64n(1 << 40)
	default:
		return int64(r.U64() >> uint(1+r.Intn(62)))
	}
}
