package main

// Non-termination and crash guard for input-family checks (DESIGN.md C07).
// The case under test runs on the calling goroutine; a monitor goroutine
// samples process CPU time and heap size. A single call that has consumed more
// than cpuLimit of CPU, or has grown the heap by more than heapLimit, is
// declared non-terminating: the verdict is written and the process exits with
// code 7 (the driver restarts the remainder of the range in a fresh child).
// Wall time alone never decides.

import (
	"fmt"
	"os"
	"runtime/metrics"
	"sync"
	"sync/atomic"
	"syscall"
	"time"

	"verif/harness/internal/common"
)

type caseGuard struct {
	mu      sync.Mutex
	seq     int64
	desc    func() interface{}
	startC  time.Duration
	startH  uint64
	active  bool
	onHang  func(desc interface{}, why string)
	started atomic.Bool
}

const (
	guardCPULimit  = 1500 * time.Millisecond
	guardHeapLimit = 768 << 20
)

func cpuTime() time.Duration {
	var ru syscall.Rusage
	if err := syscall.Getrusage(syscall.RUSAGE_SELF, &ru); err != nil {
		return 0
	}
	return time.Duration(ru.Utime.Nano() + ru.Stime.Nano())
}

func heapBytes() uint64 {
	s := []metrics.Sample{{Name: "/memory/classes/heap/objects:bytes"}}
	metrics.Read(s)
	if s[0].Value.Kind() == metrics.KindUint64 {
		return s[0].Value.Uint64()
	}
	return 0
}

func (g *caseGuard) start() {
	if g.started.Swap(true) {
		return
	}
	go func() {
		var lastSeq int64 = -1
		for {
			time.Sleep(3 * time.Millisecond)
			g.mu.Lock()
			if !g.active {
				g.mu.Unlock()
				continue
			}
			seq, desc, sc, sh := g.seq, g.desc, g.startC, g.startH
			g.mu.Unlock()
			_ = lastSeq
			lastSeq = seq
			why := ""
			if h := heapBytes(); h > sh+guardHeapLimit {
				why = fmt.Sprintf("heap grew by %d MiB inside one call", (h-sh)>>20)
			} else if c := cpuTime() - sc; c > guardCPULimit {
				// re-check that it is still the same call
				g.mu.Lock()
				same := g.active && g.seq == seq
				g.mu.Unlock()
				if same {
					why = fmt.Sprintf("one call consumed %.1fs of CPU without returning", c.Seconds())
				}
			}
			if why != "" {
				g.onHang(desc(), why)
				os.Exit(7)
			}
		}
	}()
}

// run executes fn under the guard; a panic is recovered and returned.
func (g *caseGuard) run(desc func() interface{}, fn func()) (panicked interface{}) {
	g.mu.Lock()
	g.seq++
	g.desc = desc
	g.startC = cpuTime()
	g.startH = heapBytes()
	g.active = true
	g.mu.Unlock()
	defer func() {
		g.mu.Lock()
		g.active = false
		g.mu.Unlock()
		if r := recover(); r != nil {
			panicked = r
		}
	}()
	fn()
	return nil
}

// chunkAcc accumulates the verdict of one chunk of generated cases.
type chunkAcc struct {
	res     common.Result
	sigs    sigset
	samples []interface{}
	part    string
}

func newChunk(prop, part string, idx int) *chunkAcc {
	return &chunkAcc{res: common.Result{Idx: idx, Prop: prop, Status: common.Held, Obs: map[string]int64{}}, sigs: sigset{}, part: part}
}

func (a *chunkAcc) viol(msg, key string, c interface{}) {
	a.res.Status = common.Violated
	v := common.Violation{Msg: msg, Key: key, Replay: mustJSON(map[string]interface{}{"part": a.part, "case": c})}
	if a.res.Msg == "" {
		a.res.Msg, a.res.Key, a.res.Replay = v.Msg, v.Key, v.Replay
		return
	}
	// keep one witness per distinct key
	if a.res.Key == key {
		return
	}
	for _, e := range a.res.Extra {
		if e.Key == key {
			return
		}
	}
	if len(a.res.Extra) < 12 {
		a.res.Extra = append(a.res.Extra, v)
	}
}

func (a *chunkAcc) sample(v interface{}) {
	if len(a.samples) < 2 {
		a.samples = append(a.samples, v)
	}
}

func (a *chunkAcc) finish(em *emitter) {
	a.res.Sigs = a.sigs.list()
	if len(a.samples) > 0 {
		a.res.Sample = mustJSON(a.samples[0])
	}
	em.Res(a.res)
}
