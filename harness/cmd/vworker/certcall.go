package main

// callCertified runs f (a handful of library calls made by an input-family
// check) and, if it does not come back, decides between "still working" and
// "parked for ever" the same way the scenario monitor does: two goroutine
// dumps 150 ms apart that are identical, with every goroutine parked, certify
// a deadlock. Without a certificate it keeps waiting (up to a generous
// watchdog, after which the case is not decided).

import (
	"time"

	"verif/harness/internal/stuck"
)

func callCertified(f func()) (sig string, undecided bool) {
	done := make(chan struct{})
	go func() {
		defer close(done)
		f()
	}()
	ignore := func(g stuck.G) bool { return g.Has("main.callCertified") && !g.Has("main.callCertified.func1") }
	start := time.Now()
	for {
		select {
		case <-done:
			return "", false
		case <-time.After(300 * time.Millisecond):
		}
		d1 := stuck.Parse(stuck.Dump())
		select {
		case <-done:
			return "", false
		case <-time.After(150 * time.Millisecond):
		}
		d2 := stuck.Parse(stuck.Dump())
		if ok, _ := stuck.Certify(d1, d2, ignore, func(stuck.G) bool { return false }); ok {
			return stuck.Signature(d2, ignore), false
		}
		if time.Since(start) > 60*time.Second {
			return "", true
		}
	}
}
