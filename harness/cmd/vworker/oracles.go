package main

// Oracles over a recorded run (DESIGN.md section 4 and Appendix A).

import (
	"fmt"
	"sort"
	"strings"

	"verif/harness/internal/common"
)

type verdict struct {
	Status     string
	Msg        string
	Key        string
	NonTrivial bool
	Witness    string
}

func held(nontrivial bool) verdict { return verdict{Status: common.Held, NonTrivial: nontrivial} }
func violated(key, format string, a ...interface{}) verdict {
	return verdict{Status: common.Violated, Key: key, Msg: fmt.Sprintf(format, a...), NonTrivial: true}
}
func inconclusive(format string, a ...interface{}) verdict {
	return verdict{Status: common.Inconclusive, Msg: fmt.Sprintf(format, a...)}
}

// analysis is derived once per run and shared by the oracles.
type analysis struct {
	rr        *runRec
	sc        *Scenario
	frames    []Frame
	begins    []int64 // ts of render.begin per cycle
	ends      []int64
	addRet    []int64 // ts at which Add(bar) returned (0 = never added)
	addInv    []int64
	addOrder  []int // creation order: bar indices in the order of the add hook
	first     []int // first frame index showing the bar, -1
	last      []int
	count     []int // number of frames showing it
	errCycle  bool  // some render returned an error
	focus     int   // frame index the witness should centre on (0 = the end)
	kindCache map[int]string
	popAt     map[[2]int]bool
	harness   []string
	obs       map[string]int64 // what the oracle looked at (goes into the evidence file)
}

// ob counts something the oracle actually examined in this run.
func (a *analysis) ob(k string, n int) {
	if a.obs == nil {
		a.obs = map[string]int64{}
	}
	a.obs[k] += int64(n)
}

func analyse(rr *runRec) *analysis {
	sc := rr.sc
	rr.resolveHooks()
	rr.mu.Lock()
	outs := append([]OutRec(nil), rr.outs...)
	hooks := append([]HookRec(nil), rr.hooks...)
	hist := append([]OpRec(nil), rr.hist...)
	notes := append([]string(nil), rr.notes...)
	rr.mu.Unlock()
	a := &analysis{rr: rr, sc: sc, harness: notes}
	a.frames = parseFrames(outs, hooks)
	n := len(sc.Bars)
	a.addRet, a.addInv = make([]int64, n), make([]int64, n)
	a.first, a.last, a.count = make([]int, n), make([]int, n), make([]int, n)
	for i := range a.first {
		a.first[i], a.last[i] = -1, -1
	}
	for _, h := range hooks {
		switch h.P {
		case hpRenderBegin:
			a.begins = append(a.begins, h.T)
		case hpRenderEnd:
			a.ends = append(a.ends, h.T)
			if h.B != 0 {
				a.errCycle = true
			}
		case hpAdd:
			if h.Bar >= 0 {
				a.addOrder = append(a.addOrder, h.Bar)
			}
		}
	}
	for _, o := range hist {
		if o.Op.K == "add" && o.Res == "ok" && o.Op.B < n {
			a.addRet[o.Op.B], a.addInv[o.Op.B] = o.Ret, o.Inv
		}
	}
	for fi, f := range a.frames {
		for _, g := range f.Groups {
			if g.ID < 0 || g.ID >= n {
				continue
			}
			if a.first[g.ID] < 0 {
				a.first[g.ID] = fi
			}
			a.last[g.ID] = fi
			a.count[g.ID]++
		}
	}
	return a
}

// faultScripted: the scenario injects a fault somewhere.
func (a *analysis) faultScripted() bool {
	sc := a.sc
	if sc.OutFailAt > 0 || sc.Trig != nil && sc.Trig.Action == "ttyfail" {
		return true
	}
	for _, b := range sc.Bars {
		if b.FailAt > 0 || b.ExtFailAt > 0 {
			return true
		}
	}
	return false
}

func (a *analysis) debugText() string {
	a.rr.mu.Lock()
	defer a.rr.mu.Unlock()
	s := a.rr.debug.String()
	if len(s) > 200 {
		s = s[:200]
	}
	return s
}

func (a *analysis) hist() []OpRec {
	a.rr.mu.Lock()
	defer a.rr.mu.Unlock()
	return append([]OpRec(nil), a.rr.hist...)
}

func (a *analysis) hooks() []HookRec {
	a.rr.resolveHooks()
	a.rr.mu.Lock()
	defer a.rr.mu.Unlock()
	return append([]HookRec(nil), a.rr.hooks...)
}

// interleaving signature: hash of the order of the cross-goroutine events
func (a *analysis) signature() string {
	var sb strings.Builder
	for _, h := range a.hooks() {
		switch h.P {
		case hpHmReq:
			fmt.Fprintf(&sb, "q%d.", h.A)
		case hpFlushBar:
			fmt.Fprintf(&sb, "f%d:%d.", h.Bar, h.A)
		case hpBarExit:
			fmt.Fprintf(&sb, "x%d.", h.Bar)
		case hpAdd:
			fmt.Fprintf(&sb, "a%d.", h.Bar)
		case hpServeDone:
			sb.WriteString("D.")
		case hpHmPushDetached:
			fmt.Fprintf(&sb, "d%d.", h.Bar)
		}
	}
	return common.Hs(sb.String())
}

func (a *analysis) commonInconclusive() *verdict {
	if len(a.harness) > 0 {
		v := inconclusive("harness note: %s", strings.Join(a.harness, "; "))
		return &v
	}
	if a.rr.stuckKind == "watchdog" {
		v := inconclusive("scenario exceeded its wall-clock watchdog without a stuck-state certificate (goroutines still runnable): not decided")
		v.Witness = a.rr.stuckDump
		return &v
	}
	return nil
}

func (a *analysis) tail() string {
	var sb strings.Builder
	n := len(a.frames)
	from, to := n-6, n
	if a.focus > 0 {
		from, to = a.focus-4, a.focus+2
		if to > n {
			to = n
		}
	}
	if from < 0 {
		from = 0
	}
	for _, f := range a.frames[from:to] {
		fmt.Fprintf(&sb, "--- frame %d (cycle %d, up %d)\n%s", f.Idx, f.Cycle, f.Up, stripSGR(strings.ReplaceAll(string(f.Raw), "\x1b", "^[")))
	}
	return sb.String()
}

// ---------------------------------------------------------------- C01 / C02 / C14 / C16 (liveness, crash, leak)

func (a *analysis) stuckVerdict(prop string) *verdict {
	rr := a.rr
	switch rr.stuckKind {
	case "deadlock":
		if strings.HasPrefix(rr.stuckSig, "spin@") {
			v := violated(rr.stuckSig, "a library goroutine keeps running %s while the logical clock has stood still for 5 s (no render cycle, no hook event, no client call completes): it loops without making progress", strings.TrimPrefix(rr.stuckSig, "spin@"))
			v.Witness = rr.stuckDump
			return &v
		}
		v := violated("deadlock:"+rr.stuckSig,
			"certified deadlock: two goroutine dumps 150 ms apart are identical, the logical clock stands still and every goroutine is parked (%s); Wait/API call never returns", rr.stuckSig)
		v.Witness = rr.stuckDump
		return &v
	case "livelock":
		v := violated(rr.stuckSig,
			"bounded progress violated: every bar is terminal and Wait was invoked, yet more than %d render cycles completed without Wait returning (%s)", livelockBound(a.sc), rr.stuckSig)
		v.Witness = rr.stuckDump
		return &v
	}
	return nil
}

func (a *analysis) oracleC01() verdict {
	if v := a.commonInconclusive(); v != nil {
		return *v
	}
	if v := a.stuckVerdict("C01"); v != nil {
		return *v
	}
	if a.rr.tWaitRet.Load() == 0 {
		return inconclusive("Wait did not return and no certificate was obtained")
	}
	a.ob("waits_returned", 1)
	a.ob("detached_pushes", int(a.rr.hookOcc[hpHmPushDetached].Load()))
	nt := a.rr.delaysN.Load() >= 2 || a.rr.hookOcc[hpHmPushDetached].Load() > 0 || a.sc.Q >= 0 && a.sc.Q < len(a.sc.Bars)
	return held(nt)
}

func (a *analysis) oracleC02() verdict {
	if v := a.commonInconclusive(); v != nil {
		return *v
	}
	if v := a.stuckVerdict("C02"); v != nil {
		return *v
	}
	if len(a.rr.lateMsgs) > 0 {
		return violated("late:"+firstWords(a.rr.lateMsgs[0], 3), "use after done: %s", strings.Join(a.rr.lateMsgs, "; "))
	}
	// calls racing with done must have returned (they are all recorded with Ret != 0)
	overl := false
	var tDone int64
	for _, h := range a.hooks() {
		if h.P == hpServeDone {
			tDone = h.T
		}
	}
	for _, o := range a.hist() {
		if o.Ret == 0 && !o.Skipped {
			return violated("noreturn:"+o.Op.K, "call %s by client %d never returned although the scenario ended", o.Op.K, o.Client)
		}
		if tDone != 0 && o.Inv < tDone && o.Ret > tDone {
			overl = true
			a.ob("calls_overlapping_done", 1)
		}
		if tw := a.rr.tWaitRet.Load(); tw != 0 && o.Inv > tw {
			a.ob("calls_after_wait_returned", 1)
		}
		// results of calls that began after Wait returned are checked in lateCalls; here: Add/Write results are well-formed
		if o.Op.K == "add" && o.Res != "ok" && o.Res != "ErrDone" {
			return violated("add-result", "Add returned %q", o.Res)
		}
		if o.Op.K == "write" && !strings.HasSuffix(o.Res, ",<nil>") && o.Res != "0,ErrDone" {
			return violated("write-result", "Write returned %q", o.Res)
		}
	}
	return held(overl || a.sc.Late)
}

func firstWords(s string, n int) string {
	f := strings.Fields(s)
	if len(f) > n {
		f = f[:n]
	}
	return strings.Join(f, "-")
}

func (a *analysis) oracleC16() verdict {
	if v := a.commonInconclusive(); v != nil {
		return *v
	}
	if a.rr.stuckKind != "" {
		return inconclusive("scenario did not finish (%s): leak check not reached", a.rr.stuckKind)
	}
	a.ob("drain_checks_done", 1)
	if a.rr.leak != "" {
		key := "leak:" + leakKey(a.rr.leak)
		v := violated(key, "library goroutine(s) still parked after Wait returned and the notifier was read, unchanged over 5 polls:\n%s", a.rr.leak)
		return v
	}
	return held(true)
}

func leakKey(s string) string {
	var fns []string
	for _, l := range strings.Split(strings.TrimSpace(s), "\n") {
		for _, f := range strings.Split(l, ";") {
			if strings.Contains(f, "vbauerster/mpb") && !strings.HasPrefix(f, "created by") {
				if i := strings.LastIndex(f, "/"); i >= 0 {
					f = f[i+1:]
				}
				if i := strings.Index(f, "|"); i >= 0 {
					f = f[i+1:]
				}
				fns = append(fns, f)
				break
			}
		}
	}
	sort.Strings(fns)
	var uniq []string
	for i, f := range fns {
		if i == 0 || f != fns[i-1] {
			uniq = append(uniq, f)
		}
	}
	return strings.Join(uniq, ",")
}

// C14: cancellation and Shutdown stop everything, once, wherever they land.
func (a *analysis) oracleC14() verdict {
	if v := a.commonInconclusive(); v != nil {
		return *v
	}
	if v := a.stuckVerdict("C14"); v != nil {
		return *v
	}
	rr, sc := a.rr, a.sc
	if rr.tWaitRet.Load() == 0 {
		return inconclusive("Wait did not return and no certificate was obtained")
	}
	landed := rr.cancelled.Load()
	if sc.Trig != nil && !rr.trigFired.Load() {
		landed = false
	}
	place := "director"
	if sc.Trig != nil {
		place = fmt.Sprintf("%s#%d", sc.Trig.Point, sc.Trig.Occ)
	}
	for i := range sc.Bars {
		if rr.bar(i) == nil {
			continue
		}
		pw := rr.postWait[i]
		a.ob("bars_read_after_wait", 1)
		a.ob("listener_counters_checked", len(rr.listenerCalls[i]))
		if pw.Running {
			return violated("running-after-wait", "bar %d IsRunning after Wait returned (cancel placed at %s)", i, place)
		}
		if pw.Compl == pw.Abrt {
			return violated("terminal-flags", "bar %d after Wait: Completed=%v Aborted=%v (cancel placed at %s)", i, pw.Compl, pw.Abrt, place)
		}
		if !a.mayHaveCompleted(i) && !pw.Abrt {
			return violated("not-aborted", "bar %d was never driven to completion, the container was cancelled at %s, yet Aborted=false", i, place)
		}
		if i < len(rr.listenerAtWait) {
			for ord, n := range rr.listenerAtWait[i] {
				if n != 1 {
					return violated(fmt.Sprintf("listener-at-wait:%d", n), "shutdown listener %d of bar %d had been notified %d times at the moment Wait returned (it must be exactly once before Wait returns; cancel placed at %s)", ord, i, n, place)
				}
			}
		}
		for ord, n := range rr.listenerCalls[i] {
			if got := int(n); got != 1 {
				return violated(fmt.Sprintf("listener:%d", got), "shutdown listener %d of bar %d (wrapped) was notified %d times before Wait returned (cancel placed at %s)", ord, i, got, place)
			}
		}
	}
	for _, o := range a.hist() {
		if (o.Op.K == "cancel" || o.Op.K == "shutdown") && !o.Skipped && o.Ret != 0 {
			var running, n, first int
			if _, err := fmt.Sscanf(o.Res, "stopped:%d/%d/%d", &running, &n, &first); err == nil {
				a.ob("bars_read_right_after_the_stop_call", n)
				if running > 0 {
					return violated("running-after-"+o.Op.K, "right after %s returned, %d of %d bars still report IsRunning (first: bar %d)", o.Op.K, running, n, first)
				}
			}
		}
	}
	for _, o := range a.hist() {
		if o.Op.K != "barwaitget" || o.Skipped || o.Ret == 0 {
			continue
		}
		var c, ab, run bool
		if _, err := fmt.Sscanf(o.Res, "%t,%t,%t", &c, &ab, &run); err == nil {
			a.ob("reads_right_after_barwait", 1)
			if run || c == ab {
				return violated("barwait-unsettled", "right after Bar.Wait returned on bar %d: IsRunning=%v Completed=%v Aborted=%v (cancel placed at %s)", o.Op.B, run, c, ab, place)
			}
		}
	}
	if sc.Notifier {
		a.ob("notifier_lists_checked", 1)
		if len(rr.notif) != 1 {
			return violated(fmt.Sprintf("notifier:%d", len(rr.notif)), "shutdown notifier delivered %d values (cancel placed at %s)", len(rr.notif), place)
		}
		if m := a.notifierSetMsg(); m != "" {
			return violated("notifier-set", "%s (cancel placed at %s)", m, place)
		}
	}
	return held(landed)
}

// mayHaveCompleted: some operation that can complete the bar was invoked.
func (a *analysis) mayHaveCompleted(bi int) bool {
	spec := a.sc.Bars[bi]
	for _, o := range a.hist() {
		if o.Op.B != bi || o.Skipped {
			continue
		}
		switch o.Op.K {
		case "incr", "incrby", "increment", "ewmaincr", "ewmaincrby", "ewmaincrement", "setcur", "ewmasetcur", "proxyread", "proxywrite":
			if spec.Total > 0 {
				return true
			}
		case "settotal":
			if o.Op.F {
				return true
			}
		case "enable":
			return true
		}
	}
	return false
}

// notifierSetMsg compares the notifier's list with the bars still in the
// container, in the situations where that set is unambiguous: it must contain
// no duplicates, no unknown bars, no bar that had left the display for good,
// and every bar that the last frame shows (auto mode, natural end).
func (a *analysis) notifierSetMsg() string {
	rr, sc := a.rr, a.sc
	if len(rr.notif) == 0 {
		return ""
	}
	got := rr.notif[0]
	seen := map[int]bool{}
	for _, b := range got {
		if b < 0 {
			return fmt.Sprintf("notifier list contains an unknown bar (%v)", got)
		}
		if seen[b] {
			return fmt.Sprintf("notifier list contains bar %d twice (%v)", b, got)
		}
		seen[b] = true
	}
	if (sc.Mode == "auto" || sc.Mode == "pty") && !a.errCycle && len(a.frames) > 0 && !sc.Delay && sc.OutFailAt == 0 {
		lf := a.frames[len(a.frames)-1]
		want := map[int]bool{}
		for _, g := range lf.Groups {
			want[g.ID] = true
		}
		// bars popped in the last frame are gone from the heap; the others it shows are
		// still in the container, however the container ended (the frames rendered on
		// the way out end with a stable heap)
		for id := range want {
			if !seen[id] && !a.leavesInLastFrame(id) {
				return fmt.Sprintf("bar %d is shown by the last frame but missing from the notifier list %v", id, got)
			}
		}
		for id := range seen {
			if sc.End != "natural" {
				break
			}
			if !want[id] && !a.clippedPossible() {
				return fmt.Sprintf("notifier lists bar %d which the last frame does not show (list %v, last frame %v)", id, got, lf.ids())
			}
		}
	}
	if sc.Mode == "none" && sc.End == "natural" {
		for i, spec := range sc.Bars {
			if rr.bar(i) != nil && spec.After < 0 && !seen[i] {
				return fmt.Sprintf("non-refreshing container: bar %d was added but is missing from the notifier list %v", i, got)
			}
		}
	}
	return ""
}

func (a *analysis) clippedPossible() bool {
	rows := 0
	for _, b := range a.sc.Bars {
		rows += 1 + b.Ext
	}
	h := a.sc.Width
	if a.sc.Mode == "pty" {
		h = a.sc.PtyRows - 1 // the cursor line
	}
	return rows > h
}

func (a *analysis) leavesInLastFrame(id int) bool {
	spec := a.sc.Bars[id]
	if a.sc.Pop && !spec.NoPop && !spec.Rm && spec.Finish != "abortdrop" && !a.hasSuccessor(id) && !a.dropAborted(id) {
		// a bar that pop mode retires leaves with its pop frame (terminal frame no. 3,
		// flush counter 2); one frame earlier it has only been moved to the top and
		// is still in the container
		last := -1
		for _, h := range a.hooks() {
			if h.P == hpFlushBar && h.Bar == id {
				last = h.A
			}
		}
		return last != 1
	}
	return a.sc.Pop && !spec.NoPop || spec.Rm || spec.Finish == "abortdrop" || a.hasSuccessor(id)
}

// hasSuccessor: some bar queued after id was actually added.
func (a *analysis) hasSuccessor(id int) bool {
	for si, b := range a.sc.Bars {
		if b.After == id && a.rr.bar(si) != nil {
			return true
		}
	}
	return false
}

// ---------------------------------------------------------------- C05

func (a *analysis) framesUsable() *verdict {
	if v := a.commonInconclusive(); v != nil {
		return v
	}
	if a.rr.stuckKind != "" {
		v := inconclusive("scenario did not finish (%s); frame oracles not applied", a.rr.stuckKind)
		return &v
	}
	if a.errCycle && !a.faultScripted() {
		// nothing was made to fail, yet a render cycle returned an error: the frames
		// the display properties speak of were never drawn
		v := violated("render-error-unprovoked", "a render cycle returned an error although no filler, extender, output or terminal fault was injected in this scenario (debug output: %q)", a.debugText())
		v.Witness = a.tail()
		return &v
	}
	for _, f := range a.frames {
		if len(f.Junk) > 0 {
			a.focus = f.Idx
			v := violated("junk-lines", "frame %d contains lines that are neither text nor bar rows: %q", f.Idx, f.Junk)
			v.Witness = a.tail()
			return &v
		}
	}
	return nil
}

// leavingKind: "" = stays; otherwise why the bar may leave the display, in the
// library's documented order of precedence: a bar queued behind it takes its
// place (if it was queued by the time the bar was flushed in its second
// terminal frame); else pop mode retires it (unless no-pop); else removal on
// completion / Abort(drop); a bar queued later still replaces it afterwards.
func (a *analysis) leavingKind(id int) string {
	if k, ok := a.kindCache[id]; ok {
		return k
	}
	k := a.leavingKindUncached(id)
	if a.kindCache == nil {
		a.kindCache = map[int]string{}
	}
	a.kindCache[id] = k
	return k
}

func (a *analysis) leavingKindUncached(id int) string {
	spec := a.sc.Bars[id]
	var t1 int64 // when flush met the bar's second terminal frame
	addT := map[int]int64{}
	for _, h := range a.hooks() {
		switch h.P {
		case hpFlushBar:
			if h.Bar == id && h.A == 1 && t1 == 0 {
				t1 = h.T
			}
		case hpAdd:
			if h.Bar >= 0 {
				addT[h.Bar] = h.T
			}
		}
	}
	succBefore, succLate := false, false
	for si, b := range a.sc.Bars {
		if b.After != id {
			continue
		}
		t, added := addT[si]
		if !added {
			continue
		}
		if t1 == 0 || t < t1 {
			succBefore = true
		} else {
			succLate = true
		}
	}
	if succBefore {
		return "replaced"
	}
	if a.sc.Pop && !spec.NoPop {
		return "popped"
	}
	if succLate {
		return "replaced" // handed over at its next frame after the late Add
	}
	if spec.Rm {
		return "removed" // when completed
	}
	for _, o := range a.hist() {
		if o.Op.K == "abort" && o.Op.B == id && o.Op.F && !o.Skipped {
			return "removed-if-aborted"
		}
	}
	return ""
}

func (a *analysis) oracleC05() verdict {
	if v := a.framesUsable(); v != nil {
		return *v
	}
	sc := a.sc
	if a.errCycle && sc.Notifier && a.rr.tWaitRet.Load() != 0 {
		// render-error scenarios: only the clause about the notifier's list is judged
		if v := a.notifierAfterError(a.faultSite()); v != nil {
			return *v
		}
		return held(len(sc.Bars) > 1)
	}
	if sc.Delay || a.errCycle || sc.OutFailAt > 0 {
		return inconclusive("scenario has a render delay or a render error: membership of unseen frames unknown")
	}
	changes := 0
	var prev []int
	for fi, f := range a.frames {
		seen := map[int]bool{}
		for _, g := range f.Groups {
			if g.MainIdx < 0 {
				return a.fv("group-without-main", "frame %d: extender lines of bar %d without its main row", fi, g.ID)
			}
			if seen[g.ID] {
				return a.fv("duplicate", "frame %d shows bar %d twice (ids top to bottom %v)", fi, g.ID, f.ids())
			}
			seen[g.ID] = true
			a.ob("row_groups_checked", 1)
			if g.ID < 0 || g.ID >= len(sc.Bars) {
				return a.fv("unknown-bar", "frame %d shows unknown bar id %d", fi, g.ID)
			}
		}
		ids := append([]int(nil), f.ids()...)
		sort.Ints(ids)
		if fi > 0 && fmt.Sprint(ids) != fmt.Sprint(prev) {
			changes++
		}
		prev = ids
	}
	for bi, spec := range sc.Bars {
		if p := spec.After; p >= 0 && a.rr.bar(bi) != nil && a.rr.bar(p) != nil {
			for fi, f := range a.frames {
				if f.find(bi) != nil && f.find(p) != nil {
					return a.fv("waiting-bar-shown", "frame %d shows bar %d although it is left waiting behind bar %d, which the same frame shows", fi, bi, p)
				}
			}
		}
	}
	clipped := a.clippedPossible()
	if !clipped {
		// a bar whose predecessor has gone is no longer "left waiting behind another bar":
		// it has to be drawn (the rules are C17's; here only the membership clauses count)
		if v, _, _ := a.handoverCheck(); v != nil && (v.Key == "handover-gap" || v.Key == "late-successor-not-shown") {
			v.Key = "queued-" + v.Key
			return *v
		}
	}
	for bi := range sc.Bars {
		if a.rr.bar(bi) == nil {
			continue
		}
		// contiguity + render counter
		var lastK int64 = -1
		lastF := -1
		for fi, f := range a.frames {
			g := f.find(bi)
			if g == nil {
				continue
			}
			if lastF >= 0 && fi != lastF+1 && !clipped {
				return a.fv("vanish-return", "bar %d is shown in frame %d, absent from frame(s) %d..%d, and back in frame %d", bi, lastF, lastF+1, fi-1, fi)
			}
			// the row of a frame is drawn for that frame: its render counter is newer than
			// the previous frame's (how often the library calls a decorator per cycle is its business)
			if lastK >= 0 && g.K <= lastK && !clipped {
				return a.fv("render-count", "bar %d: render counter went %d -> %d between consecutive frames %d and %d (a row drawn earlier is shown again)", bi, lastK, g.K, lastF, fi)
			}
			lastK, lastF = g.K, fi
		}
		if clipped {
			continue
		}
		spec := sc.Bars[bi]
		// prompt
		if spec.After < 0 && a.addRet[bi] != 0 {
			for fi, f := range a.frames {
				if f.Cycle >= 0 && f.Cycle < len(a.begins) && a.begins[f.Cycle] > a.addRet[bi] {
					if a.first[bi] < 0 || a.first[bi] > fi {
						// absent from a frame whose cycle began after Add returned
						if a.first[bi] < 0 && a.barGoneUnseen(bi) {
							break
						}
						return a.fv("late-appearance", "bar %d: Add returned at t=%d, frame %d belongs to a cycle that began at t=%d, yet the bar first appears in frame %d", bi, a.addRet[bi], fi, a.begins[f.Cycle], a.first[bi])
					}
					break
				}
			}
		}
		// leaves only when allowed
		if a.last[bi] >= 0 && a.last[bi] < len(a.frames)-1 {
			g := a.frames[a.last[bi]].find(bi)
			kind := a.leavingKind(bi)
			if !(g.C || g.A) {
				return a.fv("vanish-running", "bar %d disappears after frame %d although that frame shows it still running (%s)", bi, a.last[bi], g.Main)
			}
			switch kind {
			case "":
				return a.fv("vanish-staying", "bar %d (not removable, not poppable, nobody queued behind it) disappears after frame %d of %d", bi, a.last[bi], len(a.frames)-1)
			case "removed":
				if !g.C && !a.dropAborted(bi) && !a.cancelPossible() {
					return a.fv("vanish-aborted-nodrop", "bar %d (remove-on-complete) was aborted without drop but disappears after frame %d", bi, a.last[bi])
				}
			case "removed-if-aborted":
				if !g.A {
					return a.fv("vanish-completed", "bar %d completed (no removal requested) but disappears after frame %d", bi, a.last[bi])
				}
			}
		}
	}
	if sc.Notifier && a.rr.tWaitRet.Load() != 0 {
		if len(a.rr.notif) != 1 {
			return violated(fmt.Sprintf("notifier:%d", len(a.rr.notif)), "shutdown notifier delivered %d values", len(a.rr.notif))
		}
		if m := a.notifierSetMsg(); m != "" {
			return a.fv("notifier-set", "%s", m)
		}
	}
	a.ob("membership_changes", changes)
	return held(changes >= 2)
}

// barGoneUnseen: a bar that was terminal and of a leaving kind may come and go
// between two observed frames only if no frame was written meanwhile; with a
// frame per cycle that cannot happen, so this is false except for queued bars.
func (a *analysis) barGoneUnseen(bi int) bool { return false }

// cancelPossible: the container may have been cancelled (then bars are aborted
// without an Abort call and a remove-on-complete bar is removed).
func (a *analysis) cancelPossible() bool {
	if a.sc.End != "natural" {
		return true
	}
	for _, o := range a.hist() {
		if o.Op.K == "cancel" || o.Op.K == "shutdown" {
			return true
		}
	}
	return false
}

func (a *analysis) dropAborted(bi int) bool {
	for _, o := range a.hist() {
		if o.Op.K == "abort" && o.Op.B == bi && o.Op.F && !o.Skipped {
			return true
		}
	}
	return false
}

func (a *analysis) fv(key, format string, args ...interface{}) verdict {
	v := violated(key, format, args...)
	v.Witness = a.tail()
	return v
}

// ---------------------------------------------------------------- C03

func (a *analysis) oracleC03() verdict {
	if v := a.framesUsable(); v != nil {
		return *v
	}
	sc, rr := a.sc, a.rr
	if a.errCycle || sc.OutFailAt > 0 {
		return inconclusive("render error in scenario")
	}
	tw := rr.tWaitRet.Load()
	if tw == 0 {
		return inconclusive("Wait did not return")
	}
	// "the output ends with a frame in which every bar ... appears exactly once": what
	// a terminal shows at the end is the last frame only if every frame replaced its
	// predecessor; replay the stream on the emulator (C04's invariant, judged here
	// for the final screen)
	if !sc.Delay {
		if r := a.tapeCheck(); r.msg != "" {
			return a.fv("tape:"+a.tapeKey(r.key), "the frames do not replace one another on the terminal, the final screen is not the last frame: %s", r.msg)
		}
	}
	// no byte after Wait returned
	for _, f := range a.frames {
		if f.T0 > tw {
			return a.fv("write-after-wait", "output write of %d bytes at t=%d after Wait returned at t=%d", len(f.Raw), f.T0, tw)
		}
	}
	refreshing := sc.Mode == "auto" || sc.Mode == "pty"
	nearEnd := false
	if refreshing && !(sc.Delay && !a.delayReleased()) {
		if len(a.frames) == 0 {
			for bi := range sc.Bars {
				if rr.bar(bi) != nil && sc.Bars[bi].After < 0 {
					return a.fv("no-frame", "refreshing container wrote no frame although bar %d was added", bi)
				}
			}
			return held(false)
		}
		lf := a.frames[len(a.frames)-1]
		clipped := a.clippedPossible()
		for bi, spec := range sc.Bars {
			if rr.bar(bi) == nil {
				continue
			}
			pw := rr.postWait[bi]
			g := lf.find(bi)
			n := 0
			for _, x := range lf.Groups {
				if x.ID == bi {
					n++
				}
			}
			if n > 1 {
				return a.fv("last-duplicate", "last frame shows bar %d %d times", bi, n)
			}
			gone := a.mayBeGone(bi, pw)
			if g == nil {
				if !gone && !clipped && spec.After < 0 {
					return a.fv("last-missing", "bar %d (%s, still part of the container) is missing from the last frame %v", bi, flags(pw), lf.ids())
				}
				continue
			}
			if sc.End == "natural" && a.mustBeGone(bi, pw) && !clipped {
				return a.fv("last-removed-present", "bar %d was to be removed (%s) but the last frame still shows it", bi, flags(pw))
			}
			// any ending: a bar set to be removed that the last frame shows in at
			// least its second terminal frame is dropped by that very frame, so a
			// further frame without it was owed
			if !clipped && a.removalStands(bi, g) {
				tf := 0
				for fi := a.first[bi]; fi >= 0 && fi < len(a.frames); fi++ {
					if x := a.frames[fi].find(bi); x != nil && (x.C || x.A) {
						tf++
					}
				}
				if tf >= 2 && !(sc.Pop && !spec.NoPop) && !a.hasSuccessor(bi) {
					return a.fv("last-removed-present:"+sc.End, "bar %d is set to be removed and the last frame is its terminal frame no. %d: the frame that drops it cannot be the last one (bars set to be removed are absent from the final frame)", bi, tf)
				}
			}
			if g.Cur != pw.Cur || g.C != pw.Compl || g.A != pw.Abrt {
				return a.fv("last-state", "last frame shows bar %d as %d/%d C=%v A=%v, after Wait Current=%d Completed=%v Aborted=%v", bi, g.Cur, g.Tot, g.C, g.A, pw.Cur, pw.Compl, pw.Abrt)
			}
			if pw.Compl && g.Cur != g.Tot {
				return a.fv("last-complete-current", "completed bar %d shown with current %d != total %d", bi, g.Cur, g.Tot)
			}
			if spec.OnDone {
				if pw.Compl && !(strings.Contains(g.Main, "(DONE!)") && strings.Contains(g.Main, "[complete]")) {
					return a.fv("last-oncomplete", "completed bar %d lacks its on-complete decorations in the last frame: %q", bi, g.Main)
				}
				if pw.Abrt && !(strings.Contains(g.Main, "(ABRT!)") && strings.Contains(g.Main, "[aborted]")) {
					return a.fv("last-onabort", "aborted bar %d lacks its on-abort decorations in the last frame: %q", bi, g.Main)
				}
			}
			if spec.OnDone {
				hasC, hasA := strings.Contains(g.RawMain, metaDone("(m)")), strings.Contains(g.RawMain, metaAbrt("(m)"))
				if pw.Compl && (!hasC || hasA) || pw.Abrt && (!hasA || hasC) {
					return a.fv("last-meta", "bar %d (%s) in the last frame: on-complete meta applied=%v, on-abort meta applied=%v: %q", bi, flags(pw), hasC, hasA, g.RawMain)
				}
			}
			if m := a.wrapTextMsg(bi, g); m != "" {
				return a.fv("last-wrapper-text", "%s", m)
			}
			// non-trivial: became terminal less than two cycles before the end
			cnt := 0
			for fi := a.first[bi]; fi >= 0 && fi < len(a.frames); fi++ {
				if x := a.frames[fi].find(bi); x != nil && (x.C || x.A) {
					cnt++
				}
			}
			if cnt <= 3 {
				nearEnd = true
			}
		}
	} else {
		// manual / none: every frame rendered after a bar became terminal shows it terminal (implied form)
		for bi := range sc.Bars {
			term := false
			for _, f := range a.frames {
				if g := f.find(bi); g != nil {
					if term && !(g.C || g.A) {
						return a.fv("terminal-regress", "bar %d shown terminal and later running again (frame %d)", bi, f.Idx)
					}
					term = term || g.C || g.A
				}
			}
		}
	}
	// a bar nothing could have completed, in a container ended by cancel / Shutdown,
	// was ended by the cancellation: the last frame shows it aborted
	if sc.End != "natural" && (sc.Mode == "auto" || sc.Mode == "pty") && len(a.frames) > 0 {
		lf := a.frames[len(a.frames)-1]
		for _, g := range lf.Groups {
			if g.ID < 0 || g.ID >= len(sc.Bars) || a.rr.bar(g.ID) == nil || g.MainIdx < 0 {
				continue
			}
			if !a.mayHaveCompleted(g.ID) && !g.A {
				return a.fv("last-cancelled-not-aborted", "bar %d could not have completed and the container was ended by %s, yet the last frame does not show it aborted: %q", g.ID, sc.End, g.Main)
			}
		}
	}
	a.ob("last_frames_compared_with_getters", 1)
	return held(nearEnd || sc.End != "natural")
}

func flags(p getterSnap) string {
	return fmt.Sprintf("current=%d completed=%v aborted=%v", p.Cur, p.Compl, p.Abrt)
}

func (a *analysis) delayReleased() bool {
	for _, o := range a.hist() {
		if o.Op.K == "release" {
			return true
		}
	}
	return false
}

// mayBeGone: the bar may legitimately be absent from the last frame.
func (a *analysis) mayBeGone(bi int, pw getterSnap) bool {
	spec := a.sc.Bars[bi]
	if a.hasSuccessor(bi) || a.sc.Pop && !spec.NoPop {
		return true
	}
	if spec.Rm && (pw.Compl || a.cancelPossible()) {
		return true // completed, or aborted by cancellation: removal stays requested
	}
	if pw.Abrt && a.dropAborted(bi) {
		return true
	}
	return false
}

// mustBeGone: removal was requested and nothing takes precedence.
func (a *analysis) mustBeGone(bi int, pw getterSnap) bool {
	spec := a.sc.Bars[bi]
	if a.hasSuccessor(bi) {
		return true
	}
	if a.sc.Pop && !spec.NoPop {
		return false // popped bars stay on screen, in the persisted region (C18)
	}
	if spec.Rm && pw.Compl {
		return true
	}
	if pw.Abrt && a.dropAborted(bi) && a.abortWasEffective(bi) {
		return true
	}
	return false
}

// removalStands: the bar carries the remove flag for the state the frame shows:
// completed with remove-on-complete, or aborted while remove-on-complete was
// never overridden by an Abort(false) and no Abort(true/false) ambiguity exists.
func (a *analysis) removalStands(bi int, g *Group) bool {
	spec := a.sc.Bars[bi]
	nAbort, nDrop := 0, 0
	for _, o := range a.hist() {
		if o.Op.K == "abort" && o.Op.B == bi && !o.Skipped {
			nAbort++
			if o.Op.F {
				nDrop++
			}
		}
	}
	if g.C {
		return spec.Rm
	}
	if g.A {
		if nAbort == 0 {
			return spec.Rm // aborted by cancellation: the option stands
		}
		if a.cancelPossible() {
			return false // an Abort racing with cancellation may or may not have been the one that ended the bar
		}
		return nDrop == nAbort // every Abort asked for removal
	}
	return false
}

// abortWasEffective: the drop request counts only if the abort is what ended
// the bar; an Abort(true) racing with completion or cancellation may lose.
func (a *analysis) abortWasEffective(bi int) bool {
	n := 0
	for _, o := range a.hist() {
		if o.Op.B != bi || o.Skipped {
			continue
		}
		switch o.Op.K {
		case "abort":
			n++
		case "cancel", "shutdown":
			return false
		}
	}
	return n == 1 && a.sc.End == "natural" && len(a.sc.Clients) == 0
}

// wrapTextMsg: wrapped decorators must show their on-complete / on-abort text.
func (a *analysis) wrapTextMsg(bi int, g *Group) string {
	spec := a.sc.Bars[bi]
	check := func(ds []DecSpec) string {
		for _, d := range ds {
			switch d.Wrap {
			case "oncomplete", "deep":
				if g.C && !strings.Contains(g.Main, "DONE") {
					return fmt.Sprintf("completed bar %d: decorator wrapped with OnComplete does not show its message: %q", bi, g.Main)
				}
				if d.Wrap == "deep" && g.A && !strings.Contains(g.Main, "ABRT") {
					return fmt.Sprintf("aborted bar %d: decorator wrapped with OnAbort does not show its message: %q", bi, g.Main)
				}
			case "onabort":
				if g.A && !strings.Contains(g.Main, "ABRT") {
					return fmt.Sprintf("aborted bar %d: decorator wrapped with OnAbort does not show its message: %q", bi, g.Main)
				}
			case "both":
				if (g.A || g.C) && !strings.Contains(g.Main, "FIN") {
					return fmt.Sprintf("finished bar %d: decorator wrapped with OnCompleteOrOnAbort does not show its message: %q", bi, g.Main)
				}
			}
		}
		return ""
	}
	if m := check(spec.Pre); m != "" {
		return m
	}
	return check(spec.App)
}

// ---------------------------------------------------------------- C13

type writeRec struct {
	op      OpRec
	payload string
	ok      bool
	frame   int // frame that carries it, -1
	pos     int // position within the concatenated text stream
}

func (a *analysis) oracleC13() verdict {
	if a.rr.stuckKind == "deadlock" {
		for _, o := range a.hist() {
			if o.Op.K == "write" && o.Ret == 0 && !o.Skipped {
				v := violated("write-never-returns", "certified deadlock with a Progress.Write (invoked at t=%d, Wait returned at t=%d) that never returned", o.Inv, a.rr.tWaitRet.Load())
				v.Witness = a.rr.stuckDump
				return v
			}
		}
	}
	if v := a.framesUsable(); v != nil {
		return *v
	}
	sc, rr := a.sc, a.rr
	if a.errCycle || sc.OutFailAt > 0 {
		// after a failed render cycle nothing is written any more, so a Write that
		// begins after it cannot keep the promise a reported success makes
		var tErr int64
		for _, h := range a.hooks() {
			if h.P == hpRenderEnd && h.B != 0 && tErr == 0 {
				tErr = h.T
			}
		}
		n := 0
		for _, o := range a.hist() {
			if o.Op.K != "write" || o.Skipped || o.Ret == 0 || tErr == 0 || o.Inv < tErr {
				continue
			}
			n++
			if strings.HasSuffix(o.Res, ",<nil>") && !strings.HasPrefix(o.Res, "0,") {
				return a.fv("write-accepted-after-error", "Write invoked at t=%d, after the render cycle that failed (t=%d), reported success (%s): no frame is written after a render error, its text can never appear", o.Inv, tErr, o.Res)
			}
		}
		if n == 0 {
			return inconclusive("render error in scenario, no Write began after it")
		}
		return held(true)
	}
	tw := rr.tWaitRet.Load()
	// stream of text lines in output order
	type tl struct {
		line  string
		frame int
	}
	var stream []tl
	for fi, f := range a.frames {
		for _, l := range f.Text {
			stream = append(stream, tl{l, fi})
		}
	}
	pos := map[string][]int{}
	for i, t := range stream {
		pos[t.line] = append(pos[t.line], i)
	}
	// a line may be written more than once (a heartbeat): it is then owed once per
	// successful Write that carried it
	owed := map[string]int{}
	var lastRepeatRet int64
	for _, o := range a.hist() {
		if o.Op.K != "write" || o.Skipped || !strings.HasSuffix(o.Res, ",<nil>") {
			continue
		}
		for _, l := range strings.Split(strings.TrimSuffix(o.Op.S, "\n"), "\n") {
			owed[l]++
		}
	}
	for _, o := range a.hist() {
		if o.Op.K == "write" && !o.Skipped && o.Ret > lastRepeatRet {
			for _, l := range strings.Split(strings.TrimSuffix(o.Op.S, "\n"), "\n") {
				if owed[l] > 1 {
					lastRepeatRet = o.Ret
				}
			}
		}
	}
	var ws []writeRec
	overlap := false
	var relT int64
	for _, o := range a.hist() {
		if o.Op.K == "release" {
			relT = o.Ret
		}
	}
	for _, o := range a.hist() {
		if o.Op.K != "write" || o.Skipped {
			continue
		}
		w := writeRec{op: o, payload: o.Op.S, frame: -1, pos: -1}
		w.ok = strings.HasSuffix(o.Res, ",<nil>")
		if tw != 0 && o.Inv > tw {
			if o.Res != "0,ErrDone" {
				return a.fv("late-write-result", "Write begun after Wait returned gave %q, want (0, ErrDone)", o.Res)
			}
		}
		lines := strings.Split(strings.TrimSuffix(w.payload, "\n"), "\n")
		if !w.ok {
			for _, l := range lines {
				if len(pos[l]) > 0 {
					return a.fv("failed-write-emitted", "Write returned %q but its line %q was emitted", o.Res, l)
				}
			}
			continue
		}
		if want := fmt.Sprintf("%d,<nil>", len(w.payload)); o.Res != want {
			return a.fv("write-count", "Write of %d bytes returned %q", len(w.payload), o.Res)
		}
		// with a render delay, "rendering has started" is only known from the
		// outside once the first frame reached the output (the container switches
		// writers some time after the delay channel was closed)
		beforeRender := sc.Delay && (relT == 0 || o.Inv < relT || len(a.frames) == 0 || o.Inv < a.frames[0].T1)
		refreshing := sc.Mode == "auto" || sc.Mode == "pty"
		repeated := false
		for _, l := range lines {
			if owed[l] > 1 {
				repeated = true
			}
		}
		if repeated {
			// identical lines cannot be told apart: only their number is judged (below)
			continue
		}
		for li, l := range lines {
			ps := pos[l]
			if len(ps) > 1 {
				return a.fv("text-duplicated", "line %q of a successful Write appears %d times in the output", l, len(ps))
			}
			if len(ps) == 0 {
				if beforeRender || !refreshing {
					continue // rendering had not started / manual: only owed at the next rendered frame
				}
				if tw == 0 {
					continue
				}
				return a.fv("text-lost", "successful Write (returned at t=%d, before Wait returned at t=%d) never emitted its line %q", o.Ret, tw, l)
			}
			if li == 0 {
				w.pos, w.frame = ps[0], stream[ps[0]].frame
			} else if ps[0] != w.pos+li {
				return a.fv("text-torn", "lines of one Write are not contiguous in the output: %q at %d, first line at %d", l, ps[0], w.pos)
			}
		}
		if w.pos >= 0 {
			ws = append(ws, w)
			f := a.frames[w.frame]
			if f.Cycle >= 0 && f.Cycle < len(a.begins) && o.Inv < a.ends[minInt(f.Cycle, len(a.ends)-1)] && o.Ret > a.begins[f.Cycle] {
				overlap = true
			}
		}
		if !refreshing && sc.Mode == "manual" && w.pos < 0 && !beforeRender {
			// owed at the next frame rendered after the write returned
			for _, f := range a.frames {
				if f.Cycle >= 0 && f.Cycle < len(a.begins) && a.begins[f.Cycle] > o.Ret {
					return a.fv("text-lost-manual", "successful Write returned at t=%d, a later cycle (frame %d) began at t=%d, yet its text never appeared", o.Ret, f.Idx, a.begins[f.Cycle])
				}
			}
		}
	}
	// lines written several times: emitted as often as they were successfully written,
	// once a render cycle has begun after the last of those writes returned
	for l, n := range owed {
		if n < 2 {
			continue
		}
		got := len(pos[l])
		if got > n {
			return a.fv("text-duplicated", "line %q was successfully written %d times and appears %d times in the output", l, n, got)
		}
		settled := false
		for _, f := range a.frames {
			if f.Cycle >= 0 && f.Cycle < len(a.begins) && a.begins[f.Cycle] > lastRepeatRet {
				settled = true
			}
		}
		if got < n && settled && !sc.Delay {
			return a.fv("text-lost-repeated", "line %q was successfully written %d times (the last Write returned at t=%d, a render cycle began after that) but appears only %d times in the output", l, n, lastRepeatRet, got)
		}
	}
	// every emitted text line belongs to some write
	known := map[string]bool{}
	for _, o := range a.hist() {
		if o.Op.K == "write" {
			for _, l := range strings.Split(strings.TrimSuffix(o.Op.S, "\n"), "\n") {
				known[l] = true
			}
		}
	}
	for _, t := range stream {
		if !known[t.line] {
			return a.fv("text-altered", "text line %q in frame %d was never written (altered bytes?)", t.line, t.frame)
		}
	}
	// text travels with a frame: an output write that carries text but none of the
	// bars which the frames before and after it both show is text emitted outside a frame
	for fi := 1; fi+1 < len(a.frames); fi++ {
		f := a.frames[fi]
		if len(f.Text) == 0 || len(f.Groups) != 0 {
			continue
		}
		for _, g := range a.frames[fi-1].Groups {
			if a.frames[fi+1].find(g.ID) != nil && !(g.C || g.A) {
				return a.fv("text-outside-frame", "output write %d carries text %q but no bar rows, although bar %d is displayed before and after it: the text was not emitted above the bar rows of a frame", fi, f.Text[0], g.ID)
			}
		}
	}
	// "above the bar rows of the frame that carries them and never inside a bar
	// row": replay the stream on the terminal emulator; the persisted region must
	// consist of exactly the written text (and popped rows), the frame rows below it
	if !sc.Delay {
		if r := a.tapeCheck(); r.msg != "" {
			return a.fv("tape:"+a.tapeKey(r.key), "text and bar rows do not end up where they belong on the terminal: %s", r.msg)
		}
	}
	// order: real-time order across writers (and program order per writer)
	sort.Slice(ws, func(i, j int) bool { return ws[i].pos < ws[j].pos })
	for i := 0; i < len(ws); i++ {
		for j := i + 1; j < len(ws); j++ {
			// ws[i] is emitted before ws[j]; violation if ws[j] returned before ws[i] was invoked
			if ws[j].op.Ret < ws[i].op.Inv {
				return a.fv("text-order", "text %q (Write returned at t=%d) is emitted after %q (Write invoked at t=%d)", firstLine(ws[j].payload), ws[j].op.Ret, firstLine(ws[i].payload), ws[i].op.Inv)
			}
		}
	}
	a.ob("texts_located_in_output", len(ws))
	return held(overlap || len(ws) > 3)
}

func firstLine(s string) string {
	if i := strings.Index(s, "\n"); i >= 0 {
		return s[:i]
	}
	return s
}

func minInt(a, b int) int {
	if a < b {
		return a
	}
	return b
}
