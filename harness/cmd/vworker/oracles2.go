package main

// Oracles C04, C06, C11, C12, C15, C17, C18 (DESIGN.md section 4, Appendix A).

import (
	"fmt"
	"golang.org/x/sys/unix"
	"io"
	"math"
	"sort"
	"strings"

	"verif/harness/internal/vterm"
)

// ---------------------------------------------------------------- C04 / C18: terminal tape

func trimR(s string) string { return strings.TrimRight(s, " ") }

func groupLines(f *Frame) []string {
	var out []string
	for _, g := range f.Groups {
		for _, l := range g.Lines {
			out = append(out, trimR(l))
		}
	}
	return out
}

// poppedIn: groups of frame fi whose bar is retired by pop mode in that frame:
// the cycle's flush met the bar in its third terminal frame (flush.bar hook with
// shutdown counter 2) and the bar is poppable.
func (a *analysis) poppedIn(fi int) []Group {
	if !a.sc.Pop {
		return nil
	}
	if a.popAt == nil {
		a.popAt = map[[2]int]bool{}
		cyc := -1
		for _, h := range a.hooks() {
			switch h.P {
			case hpRenderBegin:
				cyc++
			case hpFlushBar:
				if h.A == 2 && h.Bar >= 0 && h.Bar < len(a.sc.Bars) && !a.sc.Bars[h.Bar].NoPop {
					a.popAt[[2]int{cyc, h.Bar}] = true
				}
			}
		}
	}
	var out []Group
	f := a.frames[fi]
	for _, g := range f.Groups {
		if g.ID < 0 || g.ID >= len(a.sc.Bars) {
			continue
		}
		if a.popAt[[2]int{f.Cycle, g.ID}] && (g.C || g.A) {
			out = append(out, g)
		}
	}
	return out
}

type tapeResult struct {
	persisted []string
	scrolled  int
	msg, key  string
}

// tapeCheck replays all frames through the terminal emulator and checks the
// tape invariants of DESIGN C04 after every frame.
func (a *analysis) tapeCheck() tapeResult {
	sc := a.sc
	// in-memory outputs: a "terminal" tall and wide enough never to scroll or wrap
	rows, cols := 64, 64
	for _, f := range a.frames {
		rows += len(f.Text) + len(f.Junk)
		if rc := f.rowCount(); rc > 0 {
			rows += rc // generous: as if every frame's rows were persisted
		}
		for _, l := range strings.Split(string(f.Raw), "\n") {
			if w := vterm.StringWidth(l) + 8; w > cols {
				cols = w
			}
		}
	}
	if sc.Mode == "pty" {
		rows, cols = sc.PtyRows, sc.PtyCols
	}
	t := vterm.New(rows, cols)
	var persisted []string
	var res tapeResult
	cur := 0
	fail := func(key, format string, args ...interface{}) tapeResult {
		res.msg, res.key = fmt.Sprintf(format, args...), key
		a.focus = cur
		res.persisted = persisted
		return res
	}
	for fi := range a.frames {
		f := &a.frames[fi]
		cur = fi
		if f.Failed {
			continue
		}
		t.Write(f.Raw)
		tape := t.Tape()
		for i := range tape {
			tape[i] = trimR(stripSGR(tape[i]))
		}
		if len(t.Unknown) > 0 {
			return fail("unknown-control", "frame %d: output contains control sequences a terminal would not understand as intended: %v", fi, t.Unknown)
		}
		if t.Wraps > 0 {
			return fail("autowrap", "frame %d: a row is wider than the %d columns of the terminal and wrapped", fi, cols)
		}
		if _, c := t.Cursor(); c != 0 {
			return fail("cursor-column", "frame %d: cursor left at column %d", fi, c)
		}
		if !t.BelowBlank() {
			return fail("stale-below", "frame %d: stale rows remain below the frame", fi)
		}
		R := groupLines(f)
		L := len(tape) - len(R)
		if L < 0 {
			return fail("rows-lost", "frame %d has %d rows but only %d lines are on the terminal", fi, len(R), len(tape))
		}
		for i, l := range R {
			if tape[L+i] != l {
				return fail("rows-mismatch", "frame %d: terminal line %d shows %q, the frame's row is %q (stale, duplicated or half-overwritten rows)", fi, L+i, tape[L+i], l)
			}
		}
		P := tape[:L]
		if len(P) < len(persisted) {
			return fail("persisted-eaten", "frame %d: cursor-up moved into the persisted region: %d persisted lines before, %d now", fi, len(persisted), len(P))
		}
		for i := range persisted {
			if P[i] != persisted[i] {
				return fail("persisted-changed", "frame %d: persisted line %d changed from %q to %q", fi, i, persisted[i], P[i])
			}
		}
		newP := P[len(persisted):]
		var want []string
		if fi > 0 {
			for _, g := range a.poppedIn(fi - 1) {
				for _, l := range g.Lines {
					want = append(want, trimR(l))
				}
			}
		}
		for _, l := range f.Text {
			want = append(want, trimR(l))
		}
		if len(newP) != len(want) {
			return fail("persisted-set", "frame %d adds %d lines above the bars %q, expected %d: the text written and the rows of bars popped by the previous frame %q", fi, len(newP), newP, len(want), want)
		}
		for i := range want {
			if newP[i] != want[i] {
				return fail("persisted-content", "frame %d: new persisted line %d is %q, expected %q", fi, i, newP[i], want[i])
			}
		}
		persisted = append([]string(nil), P...)
		// rows of bars this very frame pops out are persisted from now on
		retiring := 0
		for _, g := range a.poppedIn(fi) {
			retiring += len(g.Lines)
		}
		if n := len(t.Scrollback()); n > len(P)+retiring {
			return fail("live-row-in-scrollback", "frame %d: %d lines are in the scrollback but only %d lines are meant to persist: a live bar row was pushed off the screen", fi, n, len(P)+retiring)
		}
		if f.rowCount()-retiring > rows {
			return fail("frame-taller-than-terminal", "frame %d has %d live rows, terminal has %d", fi, f.rowCount()-retiring, rows)
		}
	}
	res.persisted = persisted
	res.scrolled = t.Scrolled
	return res
}

// tapeKey qualifies a tape violation with the input class it occurred in: pop
// mode with more rows than the terminal can show (a retired bar that is clipped
// by the height at its pop frame) is a class of its own.
func (a *analysis) tapeKey(kind string) string {
	sc := a.sc
	if sc.Mode == "pty" && a.clippedPossible() {
		if sc.Pop && (kind == "persisted-set" || kind == "persisted-content") {
			return "pop-clipped:" + kind
		}
		return kind + ":bars>=height"
	}
	return kind
}

func (a *analysis) oracleC04() verdict {
	if v := a.framesUsable(); v != nil {
		return *v
	}
	sc := a.sc
	if sc.Mode == "none" {
		a.rr.mu.Lock()
		n := 0
		for _, o := range a.rr.outs {
			n += len(o.B)
		}
		a.rr.mu.Unlock()
		if n > 0 {
			return a.fv("output-without-refresh", "non-terminal output, neither auto nor manual refresh requested, yet %d bytes reached the output", n)
		}
		return held(len(sc.Bars) > 0)
	}
	if sc.Delay {
		var rel int64 = math.MaxInt64
		for _, o := range a.hist() {
			if o.Op.K == "release" {
				rel = o.Inv
			}
		}
		for _, f := range a.frames {
			if f.T0 < rel {
				return a.fv("output-during-delay", "output write at t=%d while the render delay had not been released (released at t=%d)", f.T0, rel)
			}
		}
		// ... and the delay does end: render cycles that began well after the release
		// write their frames (the switch to the real output competes with pending refresh requests, one fair coin per cycle: ten lost in a row is a one in a thousand event even when a request is always pending)
		if rel != math.MaxInt64 && !a.errCycle && sc.OutFailAt == 0 && len(a.frames) == 0 {
			var relRet int64
			for _, o := range a.hist() {
				if o.Op.K == "release" {
					relRet = o.Ret
				}
			}
			cycles, rows := 0, 0
			for _, h := range a.hooks() {
				if relRet != 0 && h.T > relRet {
					switch h.P {
					case hpRenderBegin:
						cycles++
					case hpFlushWrite:
						if cycles >= 10 && h.A > 0 {
							rows++
						}
					}
				}
			}
			if rows > 0 {
				return a.fv("no-frame-after-delay", "the render delay was released at t=%d; %d render cycles began after that, %d of them (from the tenth on) flushed bar rows, yet not a byte reached the output", relRet, cycles, rows)
			}
		}
	}
	if a.errCycle || sc.OutFailAt > 0 {
		return inconclusive("render error in scenario")
	}
	if sc.Fam == "C04/resize" {
		return a.fitsAfterResize()
	}
	r := a.tapeCheck()
	a.ob("frames_replayed_through_emulator", len(a.frames))
	a.ob("persisted_lines_at_end", len(r.persisted))
	if r.msg != "" {
		return a.fv(a.tapeKey(r.key), "%s", r.msg)
	}
	if m := a.extenderRows(); m != "" {
		return a.fv("row-group-incomplete", "%s", m)
	}
	// cursor prefix arithmetic stated directly as well
	nt := false
	for fi := 1; fi < len(a.frames); fi++ {
		if a.frames[fi].rowCount() != a.frames[fi-1].rowCount() {
			nt = true
		}
	}
	if sc.Mode == "pty" {
		for _, f := range a.frames {
			if f.rowCount() >= sc.PtyRows-1 {
				nt = true
			}
		}
	}
	return held(nt)
}

// fitsAfterResize: "each frame fits the terminal, in rows and in columns", for a
// terminal whose window is resized while the container renders. What a terminal
// does to its content on a resize is its own business, so in-place redraw across a
// resize is not judged; what is judged is that every frame whose render cycle
// began after a resize had returned (and before the next one was invoked) is laid
// out for the size in force: at most rows-1 bar rows, no row wider than the
// columns.
//
// The size in force is that of the resize which took effect last. A resize takes
// effect somewhere between its invocation and its return, so of two resizes issued
// by different clients whose intervals overlap either one may be the later (the
// order in which the history lists them says nothing: correction 31). The sizes
// that can be in force when a cycle begins are therefore those of the returned
// resizes after whose return no other returned resize was invoked; a frame has to
// fit one of them, in rows and in columns at once.
func (a *analysis) fitsAfterResize() verdict {
	sc := a.sc
	type rs struct {
		inv, ret   int64
		rows, cols int
	}
	sizes := []rs{{0, 0, sc.PtyRows, sc.PtyCols}}
	for _, o := range a.hist() {
		if o.Op.K == "resize" && !o.Skipped && o.Res == "ok" {
			sizes = append(sizes, rs{o.Inv, o.Ret, int(o.Op.N), o.Op.B})
		}
	}
	checked, several := 0, 0
	for fi, f := range a.frames {
		if f.Cycle < 0 || f.Cycle >= len(a.begins) {
			continue
		}
		tb := a.begins[f.Cycle]
		// resizes that had returned before the cycle began, provided no other resize
		// overlaps the cycle
		var done []int
		ambiguous := false
		for i, z := range sizes {
			if z.ret <= tb {
				done = append(done, i)
			} else if z.inv < f.T1 {
				ambiguous = true
			}
		}
		if len(done) == 0 || ambiguous {
			continue
		}
		// ... of which those can have been the last to take effect that no other one
		// is known to follow
		var cand []rs
		initial := false
		for _, i := range done {
			last := true
			for _, j := range done {
				if sizes[j].inv > sizes[i].ret {
					last = false
				}
			}
			if last {
				cand = append(cand, sizes[i])
				if i == 0 {
					initial = true
				}
			}
		}
		if !initial {
			checked++
		}
		if len(cand) > 1 {
			several++
		}
		fits := false
		var why string
		for _, z := range cand {
			ok := true
			if rc := f.rowCount(); rc > z.rows-1 && z.rows > 1 {
				ok = false
				if why == "" {
					why = fmt.Sprintf("has %d rows; the terminal has had %d rows since t=%d: the frame does not fit", rc, z.rows, z.ret)
				}
			}
			for _, g := range f.Groups {
				for _, l := range g.Lines {
					if w := vterm.StringWidth(stripSGR(l)); w > z.cols && ok {
						ok = false
						if why == "" {
							why = fmt.Sprintf("a row is %d columns wide; the terminal has had %d columns since t=%d", w, z.cols, z.ret)
						}
					}
				}
			}
			if ok {
				fits = true
				break
			}
		}
		if !fits {
			key := "resize-rows"
			if !strings.HasPrefix(why, "has ") {
				key = "resize-cols"
			}
			if len(cand) > 1 {
				why += fmt.Sprintf(" (nor does it fit any other of the %d sizes that overlapping resizes can have left in force: %+v)", len(cand), cand)
			}
			return a.fv(key, "frame %d (cycle began at t=%d) %s", fi, tb, why)
		}
	}
	a.ob("frames_checked_after_a_resize", checked)
	a.ob("frames_with_several_possible_sizes", several)
	return held(checked > 0)
}

// extenderRows: a bar's row group is its row plus the lines of its extender, all
// of them, below the row or (reverse flag) above it, in every frame in which
// nothing was clipped by the frame height. Returns "" or the violation.
func (a *analysis) extenderRows() string {
	sc := a.sc
	height := sc.Width // not a terminal: the library takes the width for the height
	if sc.Mode == "pty" {
		height = sc.PtyRows - 1
	}
	for fi, f := range a.frames {
		if f.rowCount() >= height {
			continue // rows were (or may have been) clipped
		}
		for _, g := range f.Groups {
			if g.ID < 0 || g.ID >= len(sc.Bars) {
				continue
			}
			spec := sc.Bars[g.ID]
			if spec.Ext <= 0 || spec.ExtFailAt > 0 || g.MainIdx < 0 {
				continue
			}
			if len(g.Lines) != spec.Ext+1 {
				return fmt.Sprintf("frame %d: bar %d has an extender writing %d lines, its row group has %d line(s): %q", fi, g.ID, spec.Ext, len(g.Lines), g.Lines)
			}
			if want := map[bool]int{false: 0, true: spec.Ext}[spec.ExtRev]; g.MainIdx != want {
				return fmt.Sprintf("frame %d: bar %d extends %s, but its row is line %d of the group %q", fi, g.ID, map[bool]string{false: "below", true: "above (reverse)"}[spec.ExtRev], g.MainIdx, g.Lines)
			}
		}
	}
	return ""
}

func (a *analysis) oracleC18() verdict {
	if v := a.framesUsable(); v != nil {
		return *v
	}
	sc := a.sc
	if a.errCycle || sc.OutFailAt > 0 || sc.Delay {
		return inconclusive("render error / delay in scenario")
	}
	if !sc.Pop {
		return inconclusive("not a pop-mode scenario")
	}
	r := a.tapeCheck()
	a.ob("frames_replayed_through_emulator", len(a.frames))
	a.ob("persisted_lines_at_end", len(r.persisted))
	if r.msg != "" {
		return a.fv(a.tapeKey(r.key), "%s", r.msg)
	}
	// "drawn there in its finished state": a bar with extender lines is its whole
	// row group, lines in their documented order, also in the frame that retires it
	if m := a.extenderRows(); m != "" {
		return a.fv("row-group-incomplete", "%s", m)
	}
	popped := 0
	clipped := a.clippedPossible()
	for bi, spec := range sc.Bars {
		if a.rr.bar(bi) == nil {
			continue
		}
		// count occurrences in the persisted region
		n := 0
		var row string
		for _, l := range r.persisted {
			if m := markerRe.FindStringSubmatch(l); m != nil && m[1] == fmt.Sprint(bi) {
				n++
				row = l
			}
		}
		kind := a.leavingKind(bi)
		if kind != "popped" {
			if n > 0 {
				return a.fv("nopop-persisted", "bar %d (%s) must not be popped but its row is in the persisted region", bi, describeKind(spec, kind))
			}
			continue
		}
		if n > 1 {
			return a.fv("popped-twice", "bar %d appears %d times in the persisted region", bi, n)
		}
		if n == 1 {
			popped++
			m := markerRe.FindStringSubmatch(row)
			if m[4] != "1" && m[5] != "1" {
				return a.fv("popped-unfinished", "bar %d persisted in a non-final state: %q", bi, row)
			}
			// unchanged: equals the row of its last frame
			g := a.frames[a.last[bi]].find(bi)
			if g != nil && trimR(g.Main) != row {
				return a.fv("popped-changed", "bar %d persisted as %q but last rendered as %q", bi, row, trimR(g.Main))
			}
		}
		if n == 0 && sc.End == "natural" && !a.cancelPossible() && a.rr.tWaitRet.Load() != 0 {
			pw := a.rr.postWait[bi]
			if pw.Compl || pw.Abrt {
				if a.first[bi] < 0 && spec.After >= 0 {
					continue // queued bar that never got its turn is C17's subject
				}
				// finished, not in the persisted region: fine only while it is still
				// on screen in the last frame (live, or being popped by that very frame)
				if len(a.frames) == 0 || a.frames[len(a.frames)-1].find(bi) == nil {
					key := "popped-never-persisted"
					if clipped {
						key = "pop-clipped:never-persisted"
					}
					return a.fv(key, "bar %d finished (%s) in pop mode, is not marked no-pop, has no bar queued behind it, yet its row never entered the persisted region and it is not on screen at the end", bi, flags(pw))
				}
			}
		}
	}
	// popped bars above all running bars in their second-to-last frame, and no-pop bars keep their place: by rule 7
	for fi := range a.frames {
		pg := a.poppedIn(fi)
		if len(pg) == 0 {
			continue
		}
		f := a.frames[fi]
		for i, g := range f.Groups[:len(pg)] {
			if g.ID != pg[i].ID {
				return a.fv("popped-not-on-top", "frame %d: bars popped by this frame %v are not the topmost rows %v", fi, ids(pg), f.ids())
			}
		}
	}
	a.ob("popped_bars_found_persisted_once", popped)
	return held(popped >= 1)
}

func ids(gs []Group) []int {
	out := make([]int, len(gs))
	for i, g := range gs {
		out[i] = g.ID
	}
	return out
}

func describeKind(spec BarSpec, kind string) string {
	if spec.NoPop {
		return "no-pop"
	}
	return kind
}

// ---------------------------------------------------------------- C17

// handoverCheck: the rules for bars queued after another bar (shared by C17 and
// C05): never shown together with the predecessor; a successor queued before the
// cycle of the predecessor's last frame takes over in the very next frame at its
// rank; one created later appears in the first frame whose cycle began after its
// Add returned.
func (a *analysis) handoverCheck() (viol *verdict, nt, late bool) {
	sc := a.sc
	for bi, spec := range sc.Bars {
		p := spec.After
		if p < 0 || a.rr.bar(bi) == nil || a.rr.bar(p) == nil {
			continue
		}
		for fi, f := range a.frames {
			if f.find(bi) != nil && f.find(p) != nil {
				v := a.fv("together", "frame %d shows bar %d together with bar %d it was queued after", fi, bi, p)
				return &v, nt, late
			}
		}
		if a.first[p] < 0 {
			continue
		}
		if a.last[p] == len(a.frames)-1 {
			// predecessor still displayed at the end: successor must not have been shown
			continue
		}
		lp := a.last[p]
		lpc := a.frames[lp].Cycle
		if a.addRet[bi] == 0 {
			continue
		}
		if lpc >= 0 && lpc < len(a.begins) && a.addRet[bi] < a.begins[lpc] {
			// queued in time: must take over in the very next frame
			nt = true
			a.ob("timely_handovers_checked", 1)
			if a.first[bi] != lp+1 {
				v := a.fv("handover-gap", "bar %d was queued after bar %d before the cycle of %d's last frame (%d) began, but first appears in frame %d, not %d", bi, p, p, lp, a.first[bi], lp+1)
				return &v, nt, late
			}
			if a.leavingKind(p) == "replaced" && a.queuedBeforeFlush(bi, p) {
				if m := a.rankMsg(bi, p); m != "" {
					v := a.fv("handover-rank", "%s", m)
					return &v, nt, late
				}
			}
		} else {
			late = true
			a.ob("late_successors_checked", 1)
			// created after (or while) the predecessor left: must appear promptly
			for fi, f := range a.frames {
				if f.Cycle >= 0 && f.Cycle < len(a.begins) && a.begins[f.Cycle] > a.addRet[bi] && fi > lp+1 {
					if a.first[bi] < 0 || a.first[bi] > fi {
						v := a.fv("late-successor-not-shown", "bar %d was queued after bar %d, which had its last frame %d before; frame %d belongs to a cycle that began after Add returned, yet bar %d first appears in frame %d", bi, p, lp, fi, bi, a.first[bi])
						return &v, nt, late
					}
					break
				}
			}
		}
	}
	return nil, nt, late
}

func (a *analysis) oracleC17() verdict {
	if v := a.commonInconclusive(); v != nil {
		return *v
	}
	if v := a.stuckVerdict("C17"); v != nil {
		return *v
	}
	if v := a.framesUsable(); v != nil {
		return *v
	}
	sc := a.sc
	if a.errCycle || sc.Delay {
		return inconclusive("render error / delay")
	}
	viol, nt, late := a.handoverCheck()
	if viol != nil {
		return *viol
	}
	// Wait accounts for every bar: it cannot return before each bar's finishing call was invoked
	if tw := a.rr.tWaitRet.Load(); tw != 0 && sc.End == "natural" && !a.cancelPossible() {
		for bi := range sc.Bars {
			if a.rr.bar(bi) == nil {
				continue
			}
			pw := a.rr.postWait[bi]
			if pw.Running || pw.Compl == pw.Abrt {
				return a.fv("wait-unaccounted", "Wait returned while bar %d is %s running=%v", bi, flags(pw), pw.Running)
			}
			var fin int64
			for _, o := range a.hist() {
				if o.Op.B == bi && !o.Skipped && (o.Op.K == "setcur" || o.Op.K == "ewmasetcur" || o.Op.K == "settotal" || o.Op.K == "abort" || o.Op.K == "incr" || o.Op.K == "increment" || o.Op.K == "ewmaincr" || o.Op.K == "proxyread" || o.Op.K == "proxywrite" || o.Op.K == "enable") {
					if fin == 0 || o.Inv < fin {
						fin = o.Inv
					}
				}
			}
			if fin != 0 && fin > tw {
				return a.fv("wait-early", "Wait returned at t=%d before any finishing call on bar %d was invoked (t=%d)", tw, bi, fin)
			}
		}
	}
	return held(nt || late)
}

// queuedBeforeFlush: b's Add executed before flush met p's second terminal
// frame (both events fire in the container goroutine): only then does b take
// over p's place and priority.
func (a *analysis) queuedBeforeFlush(b, p int) bool {
	var t1, tAdd int64
	for _, h := range a.hooks() {
		switch h.P {
		case hpFlushBar:
			if h.Bar == p && h.A == 1 && t1 == 0 {
				t1 = h.T
			}
		case hpAdd:
			if h.Bar == b {
				tAdd = h.T
			}
		}
	}
	return tAdd != 0 && (t1 == 0 || tAdd < t1)
}

// rankMsg: successor b takes predecessor p's place relative to the bars common to both frames.
func (a *analysis) rankMsg(b, p int) string {
	fp, fb := a.frames[a.last[p]], a.frames[a.first[b]]
	// skip when priorities were changed in the scenario
	for _, o := range a.hist() {
		if o.Op.K == "prio" || o.Op.K == "setprio" {
			return ""
		}
	}
	pos := func(f Frame, id int) int {
		for i, g := range f.Groups {
			if g.ID == id {
				return i
			}
		}
		return -1
	}
	pp, pb := pos(fp, p), pos(fb, b)
	var basePrio func(id int) int
	basePrio = func(id int) int {
		if q := a.sc.Bars[id].After; q >= 0 && a.queuedBeforeFlush(id, q) {
			return basePrio(q) // inherited along the chain
		}
		if pr := a.sc.Bars[id].Prio; pr != nil {
			return *pr
		}
		for ord, x := range a.addOrder {
			if x == id {
				return ord
			}
		}
		return -1 << 40
	}
	for _, g := range fp.Groups {
		c := g.ID
		if c == p || a.sc.Bars[c].After == p {
			continue
		}
		if basePrio(c) == basePrio(p) {
			continue // equal priorities: any order
		}
		cb := pos(fb, c)
		if cb < 0 {
			continue
		}
		if a.sc.Bars[c].After >= 0 {
			continue // c itself inherited a priority
		}
		cp := pos(fp, c)
		if a.sc.Pop {
			// finished bars move to the top between the two frames: only bars running in both count
			gp, gb := fp.find(c), fb.find(c)
			if gp == nil || gb == nil || gp.C || gp.A || gb.C || gb.A {
				continue
			}
		}
		if (cp < pp) != (cb < pb) {
			return fmt.Sprintf("bar %d replaces bar %d but not in its position: bar %d was %s it, is now %s its successor (frames %d -> %d: %v -> %v)", b, p, c, abv(cp < pp), abv(cb < pb), a.last[p], a.first[b], fp.ids(), fb.ids())
		}
	}
	return ""
}

func abv(x bool) string {
	if x {
		return "above"
	}
	return "below"
}

// ---------------------------------------------------------------- C06

type prioUpd struct {
	inv, ret int64
	val      int
	lazy     bool
}

func (a *analysis) oracleC06() verdict {
	if v := a.framesUsable(); v != nil {
		return *v
	}
	sc := a.sc
	if a.errCycle || sc.Delay {
		return inconclusive("render error / delay")
	}
	n := len(sc.Bars)
	// default priority = creation order
	base := make([]int, n)
	for i := range base {
		base[i] = math.MinInt64
	}
	for ord, bi := range a.addOrder {
		if bi >= 0 && bi < n {
			base[bi] = ord
			if sc.Bars[bi].Prio != nil {
				base[bi] = *sc.Bars[bi].Prio
			}
		}
	}
	upd := make([][]prioUpd, n)
	nUpd := 0
	for _, o := range a.hist() {
		if (o.Op.K == "prio" || o.Op.K == "setprio") && !o.Skipped && o.Op.B < n {
			ret := o.Ret
			if ret == 0 {
				ret = math.MaxInt64
			}
			upd[o.Op.B] = append(upd[o.Op.B], prioUpd{o.Inv, ret, int(o.Op.N), o.Op.K == "prio" && o.Op.F})
			nUpd++
		}
	}
	// pop order from flush.bar(shutdown==1) events of poppable bars without queued successors
	popSeq := map[int]int{}
	popCycle := map[int]int{}
	if sc.Pop {
		cyc := -1
		seq := 0
		for _, h := range a.hooks() {
			switch h.P {
			case hpRenderBegin:
				cyc++
			case hpFlushBar:
				if h.A == 1 && h.Bar >= 0 && h.Bar < n && a.leavingKind(h.Bar) == "popped" {
					if _, ok := popSeq[h.Bar]; !ok {
						popSeq[h.Bar] = seq
						popCycle[h.Bar] = cyc
						seq++
					}
				}
			}
		}
	}
	checked := 0
	for fi, f := range a.frames {
		c := f.Cycle
		if c < 0 || c >= len(a.begins) {
			continue
		}
		begin := a.begins[c]
		var prevBegin int64
		if c > 0 {
			prevBegin = a.begins[c-1]
		}
		// exemption: a lazy change possibly executed in the gap before this cycle
		exempt := false
		for bi := range upd {
			for _, u := range upd[bi] {
				if u.lazy && u.inv < begin && u.ret > prevBegin {
					// ... unless an immediate change of the same bar came after it and
					// was over before this cycle began: that one re-sorts the bar at once
					// (and nothing else touched a priority in between: an immediate change of
					// another bar made while this one sits at a stale position re-sorts
					// against a heap that is not in order, which is part of "unspecified")
					fixed := false
					for _, w := range upd[bi] {
						if !w.lazy && w.inv > u.ret && w.ret < begin {
							clean := true
							for bj := range upd {
								for _, x := range upd[bj] {
									if x != u && x != w && x.ret > u.inv && x.inv < w.ret {
										clean = false
									}
								}
							}
							if clean {
								fixed = true
							}
						}
					}
					if !fixed {
						exempt = true
					}
				}
			}
		}
		if exempt {
			continue
		}
		// candidates per displayed bar
		prev := math.MinInt64
		ok := true
		var detail []string
		for _, g := range f.Groups {
			bi := g.ID
			if bi < 0 || bi >= n {
				ok = false
				break
			}
			var cands []int
			if pc, popped := popCycle[bi]; popped && c > pc {
				cands = []int{math.MinInt32 + popSeq[bi]}
				// a user update after the pop could move it: include applied/ambiguous updates invoked after
			} else if p := sc.Bars[bi].After; p >= 0 {
				cands = nil // inherits at swap time: any value
				if sc.Pop && !sc.Bars[p].NoPop && !a.queuedBeforeFlush(bi, p) {
					// queued after pop mode had moved its predecessor away: nothing
					// to inherit, the bar comes with its own (creation order) priority
					cands = []int{base[bi]}
				}
			} else {
				var applied []prioUpd
				for _, u := range upd[bi] {
					switch {
					case u.ret < begin:
						applied = append(applied, u)
					case u.inv < begin:
						cands = append(cands, u.val) // ambiguous
					}
				}
				last := false
				for i, u := range applied {
					over := false
					for j, w := range applied {
						if i != j && w.inv > u.ret {
							over = true
						}
					}
					if !over {
						cands = append(cands, u.val)
						last = true
					}
				}
				if !last || len(applied) == 0 {
					cands = append(cands, base[bi])
				} else {
					// the base value stays possible only if no update is definitely applied
				}
				if len(applied) == 0 {
					// nothing more
				}
			}
			if cands == nil {
				detail = append(detail, fmt.Sprintf("%d:*", bi))
				continue // wildcard: keeps prev
			}
			sort.Ints(cands)
			pick, found := 0, false
			for _, v := range cands {
				if v >= prev {
					pick, found = v, true
					break
				}
			}
			detail = append(detail, fmt.Sprintf("%d:%v", bi, cands))
			if !found {
				ok = false
				break
			}
			prev = pick
		}
		checked++
		if !ok {
			key := "order"
			if sc.Pop {
				key = "order:pop"
			}
			if nUpd > 0 {
				key += ":updates"
			}
			return a.fv(key, "frame %d (cycle %d): bars top to bottom with their possible priority values %v are not in non-decreasing priority order", fi, c, detail)
		}
	}
	// successors keep the predecessor's position (C17 rank rule) when no update interferes
	for bi, spec := range sc.Bars {
		p := spec.After
		if p >= 0 && a.first[bi] >= 0 && a.first[p] >= 0 && a.first[bi] == a.last[p]+1 && a.queuedBeforeFlush(bi, p) {
			if m := a.rankMsg(bi, p); m != "" {
				return a.fv("successor-rank", "%s", m)
			}
		}
	}
	a.ob("frames_order_checked", checked)
	a.ob("priority_updates", nUpd)
	a.ob("pop_events", len(popSeq))
	return held(checked >= 2 && (nUpd > 0 || len(popSeq) > 0 || n > 2))
}

// ---------------------------------------------------------------- C11

type flagObs struct {
	inv, ret int64
	c, ab    bool
	hasC     bool
	hasA     bool
	src      string
}

func (a *analysis) oracleC11() verdict {
	if v := a.commonInconclusive(); v != nil {
		return *v
	}
	sc := a.sc
	n := len(sc.Bars)
	obs := make([][]flagObs, n)
	for _, o := range a.hist() {
		if o.Skipped || o.Ret == 0 || o.Op.B >= n || a.rr.bar(o.Op.B) == nil {
			continue
		}
		switch o.Op.K {
		case "get":
			var cur int64
			var c, ab, run bool
			var id int
			if _, err := fmt.Sscanf(o.Res, "%d,%t,%t,%t,%d", &cur, &c, &ab, &run, &id); err == nil {
				// the two getters are separate calls: treat as two observations inside the op's interval
				obs[o.Op.B] = append(obs[o.Op.B], flagObs{o.Inv, o.Ret, c, false, true, false, "Completed()"}, flagObs{o.Inv, o.Ret, false, ab, false, true, "Aborted()"})
			}
		case "compl":
			obs[o.Op.B] = append(obs[o.Op.B], flagObs{o.Inv, o.Ret, o.Res == "1", false, true, false, "Completed()"})
		case "abrt":
			obs[o.Op.B] = append(obs[o.Op.B], flagObs{o.Inv, o.Ret, false, o.Res == "1", false, true, "Aborted()"})
		}
	}
	for fi, f := range a.frames {
		for _, g := range f.Groups {
			if g.ID < 0 || g.ID >= n || g.MainIdx < 0 {
				continue
			}
			if g.C && g.A {
				return a.fv("both-in-statistics", "frame %d: the statistics handed to the decorators of bar %d carry Completed and Aborted together: %q", fi, g.ID, g.Main)
			}
			// a frame's statistics were taken between the cycle's begin and the write
			t0 := f.T0
			if f.Cycle >= 0 && f.Cycle < len(a.begins) {
				t0 = a.begins[f.Cycle]
			}
			obs[g.ID] = append(obs[g.ID], flagObs{t0, f.T1, g.C, g.A, true, true, fmt.Sprintf("frame %d", fi)})
		}
	}
	if tw := a.rr.tWaitRet.Load(); tw != 0 {
		for bi, pw := range a.rr.postWait {
			if a.rr.bar(bi) == nil {
				continue
			}
			if pw.Compl == pw.Abrt {
				return a.fv("after-wait:"+fmt.Sprintf("c%va%v", pw.Compl, pw.Abrt), "after Wait returned bar %d reports Completed=%v Aborted=%v", bi, pw.Compl, pw.Abrt)
			}
			obs[bi] = append(obs[bi], flagObs{tw, tw + 1, pw.Compl, pw.Abrt, true, true, "after Wait"})
			if !a.mayHaveCompleted(bi) && !pw.Abrt {
				return a.fv("cancelled-not-aborted", "bar %d was never driven to completion and ended by cancellation, but Aborted=false", bi)
			}
		}
	}
	crossing := false
	for bi := range obs {
		var seenC, seenA *flagObs
		os := obs[bi]
		sort.SliceStable(os, func(i, j int) bool { return os[i].ret < os[j].ret })
		for i := range os {
			o := &os[i]
			if o.hasC && o.c && seenC == nil {
				seenC = o
			}
			if o.hasA && o.ab && seenA == nil {
				seenA = o
			}
		}
		if seenC != nil && seenA != nil {
			return a.fv("both-observed", "bar %d was observed completed (%s, t=%d..%d) and aborted (%s, t=%d..%d)", bi, seenC.src, seenC.inv, seenC.ret, seenA.src, seenA.inv, seenA.ret)
		}
		for i := range os {
			o := &os[i]
			if seenC != nil && o.inv > seenC.ret && o.hasC && !o.c {
				return a.fv("completed-flipped", "bar %d: Completed observed true (%s, returned t=%d), later observed false (%s, invoked t=%d)", bi, seenC.src, seenC.ret, o.src, o.inv)
			}
			if seenA != nil && o.inv > seenA.ret && o.hasA && !o.ab {
				return a.fv("aborted-flipped", "bar %d: Aborted observed true (%s, returned t=%d), later observed false (%s, invoked t=%d)", bi, seenA.src, seenA.ret, o.src, o.inv)
			}
		}
		a.ob("flag_observations", len(os))
		if (seenC != nil || seenA != nil) && len(os) > 2 {
			crossing = true
			a.ob("bars_observed_across_terminal_transition", 1)
		}
	}
	return held(crossing)
}

// ---------------------------------------------------------------- C12

// bracketTokens splits a row into its self-delimiting fields: <marker>,
// {synced}, (plain) and [filler]; spaces between them are padding.
func bracketTokens(line string) []string {
	var out []string
	closer := map[byte]byte{'<': '>', '{': '}', '(': ')', '[': ']'}
	for i := 0; i < len(line); {
		c := line[i]
		if c == ' ' {
			i++
			continue
		}
		if cl, ok := closer[c]; ok {
			j := strings.IndexByte(line[i+1:], cl)
			if j < 0 {
				out = append(out, line[i:])
				break
			}
			out = append(out, line[i:i+j+2])
			i += j + 2
			continue
		}
		// unbracketed run
		j := i
		for j < len(line) && line[j] != ' ' && closer[line[j]] == 0 {
			j++
		}
		out = append(out, line[i:j])
		i = j
	}
	return out
}

func fillTo(s string, w int, right bool) string {
	sw := vterm.StringWidth(s)
	if sw >= w {
		return s
	}
	pad := strings.Repeat(" ", w-sw)
	if right {
		return s + pad
	}
	return pad + s
}

// decEmpty: the decorator's text is empty in a row showing the given state (an
// empty name, or a wrapper whose on-complete / on-abort message is empty).
func decEmpty(d DecSpec, g Group) bool {
	switch d.Wrap {
	case "oncompleteE":
		if g.C {
			return true
		}
	case "onabortE":
		if g.A {
			return true
		}
	case "oncomplete":
		if g.C {
			return false
		}
	case "onabort":
		if g.A {
			return false
		}
	case "both":
		if g.C || g.A {
			return false
		}
	case "deep":
		if g.C || g.A {
			return false
		}
	}
	return d.Kind == "emptyname"
}

func needWidth(tokW int, d DecSpec) int {
	if d.W > tokW {
		return d.W
	}
	if d.C&2 != 0 { // DextraSpace
		return tokW + 1
	}
	return tokW
}

func (a *analysis) oracleC12() verdict {
	// a certified deadlock with a decorator parked in the width handshake: the
	// column never got its common width, the frame it belongs to never appears
	if a.commonInconclusive() == nil && a.rr.stuckKind == "deadlock" && strings.Contains(a.rr.stuckSig, "decor.WC.Format") {
		v := violated("sync-deadlock", "certified deadlock inside width synchronisation: a synchronised decorator waits in WC.Format for a column width that never arrives (%s)", a.rr.stuckSig)
		v.Witness = a.rr.stuckDump
		return v
	}
	if v := a.framesUsable(); v != nil {
		return *v
	}
	sc := a.sc
	if a.errCycle || sc.Delay {
		return inconclusive("render error / delay")
	}
	synced := 0
	for fi, f := range a.frames {
		type rowInfo struct {
			g      Group
			toks   []string
			pre    []DecSpec
			app    []DecSpec
			filler bool
		}
		var rows []rowInfo
		ok := true
		for _, g := range f.Groups {
			if g.ID < 0 || g.ID >= len(sc.Bars) || g.MainIdx < 0 {
				ok = false
				break
			}
			spec := sc.Bars[g.ID]
			toks := bracketTokens(g.Main)
			ri := rowInfo{g: g, pre: spec.Pre, app: spec.App, filler: spec.Filler == "bar"}
			want := 1
			for _, d := range spec.Pre {
				if !decEmpty(d, g) {
					want++
				}
			}
			for _, d := range spec.App {
				if !decEmpty(d, g) {
					want++
				}
			}
			if ri.filler {
				want++
			}
			if spec.OnDone {
				want += 2 // the on-complete / on-abort text and the meta-decorated name
				if g.C || g.A {
					ri.filler = true // replaced by a message token
					if spec.Filler != "bar" {
						want++
					}
				}
			}
			if len(toks) != want {
				// the row cannot be split into the fields the scenario put there (a text with
				// spaces, a decorator that printed nothing): nothing can be said about columns
				return inconclusive("frame %d bar %d: row %q has %d fields, expected %d (marker, %d+%d decorators, filler): columns not judged", fi, g.ID, g.Main, len(toks), want, len(spec.Pre), len(spec.App))
			}
			// one entry per decorator slot; a decorator whose text is empty has the empty token
			next := 0
			take := func() string { next++; return toks[next-1] }
			ri.toks = append(ri.toks, take())
			for _, d := range spec.Pre {
				if decEmpty(d, g) {
					ri.toks = append(ri.toks, "")
				} else {
					ri.toks = append(ri.toks, take())
				}
			}
			if ri.filler {
				ri.toks = append(ri.toks, take())
			}
			for _, d := range spec.App {
				if decEmpty(d, g) {
					ri.toks = append(ri.toks, "")
				} else {
					ri.toks = append(ri.toks, take())
				}
			}
			for next < len(toks) {
				ri.toks = append(ri.toks, take())
			}
			rows = append(rows, ri)
		}
		if !ok {
			continue
		}
		// column maxima
		colMax := map[string]int{}
		for _, r := range rows {
			ord := 0
			for i, d := range r.pre {
				if d.synced() {
					k := fmt.Sprintf("p%d", ord)
					if w := needWidth(vterm.StringWidth(r.toks[1+i]), d); w > colMax[k] {
						colMax[k] = w
					}
					ord++
				}
			}
			ord = 0
			off := 1 + len(r.pre)
			if r.filler {
				off++
			}
			for i, d := range r.app {
				if d.synced() {
					k := fmt.Sprintf("a%d", ord)
					if w := needWidth(vterm.StringWidth(r.toks[off+i]), d); w > colMax[k] {
						colMax[k] = w
					}
					ord++
				}
			}
		}
		for _, r := range rows {
			var pre strings.Builder
			pre.WriteString(r.toks[0])
			ord := 0
			for i, d := range r.pre {
				tok := r.toks[1+i]
				w := needWidth(vterm.StringWidth(tok), d)
				if d.synced() {
					w = colMax[fmt.Sprintf("p%d", ord)]
					ord++
					synced++
				}
				pre.WriteString(fillTo(tok, w, d.C&1 != 0))
			}
			var app strings.Builder
			ord = 0
			off := 1 + len(r.pre)
			if r.filler {
				off++
			}
			for i, d := range r.app {
				tok := r.toks[off+i]
				w := needWidth(vterm.StringWidth(tok), d)
				if d.synced() {
					w = colMax[fmt.Sprintf("a%d", ord)]
					ord++
					synced++
				}
				app.WriteString(fillTo(tok, w, d.C&1 != 0))
			}
			appS := app.String()
			if sc.Bars[r.g.ID].OnDone {
				appS += r.toks[len(r.toks)-2] + r.toks[len(r.toks)-1]
			}
			line := r.g.Main
			if !strings.HasPrefix(line, pre.String()) {
				return a.fv("sync-prepend", "frame %d bar %d: left decorators are %q, with one common width per synchronised column (%v) they must be %q", fi, r.g.ID, line[:minInt(len(line), len(pre.String())+8)], colMax, pre.String())
			}
			if !strings.HasSuffix(line, appS) {
				return a.fv("sync-append", "frame %d bar %d: row %q must end in %q (one common width per synchronised column: %v)", fi, r.g.ID, line, appS, colMax)
			}
			if vterm.StringWidth(line) > sc.Width {
				return inconclusive("row wider than the container: truncation interferes with the column check")
			}
		}
	}
	a.ob("synced_fields_checked", synced)
	return held(synced >= 4 && len(a.frames) >= 2)
}

// ---------------------------------------------------------------- C15

func (a *analysis) oracleC15() verdict {
	if v := a.commonInconclusive(); v != nil {
		return *v
	}
	if v := a.stuckVerdict("C15"); v != nil {
		v.Key = "after-fault:" + v.Key
		if !a.errCycle && !a.faultHappened() {
			v.Key = "no-fault:" + v.Key
		}
		return *v
	}
	rr, sc := a.rr, a.sc
	if rr.tWaitRet.Load() == 0 {
		return inconclusive("Wait did not return and no certificate was obtained")
	}
	rr.mu.Lock()
	dbg := rr.debug.String()
	rr.mu.Unlock()
	// what the debug output has to say about: the text of the error a render
	// returned. Anything else written there is the library's own business.
	scripted := []string{errFill.Error(), io.EOF.Error(), io.ErrUnexpectedEOF.Error(), errOut.Error(), unix.ENOTTY.Error(), io.ErrShortWrite.Error()}
	if !a.errCycle {
		for _, t := range scripted {
			if strings.Contains(dbg, t) {
				return a.fv("debug-without-error", "no render returned an error, yet the debug output reports %q: %q", t, dbg)
			}
		}
		if a.faultHappened() {
			return a.fv("error-swallowed:output", "the output writer returned an error (after taking part of the frame or none of it) but no render cycle failed: the container kept rendering")
		}
		if k := a.rr.faultsReturned.Load(); k > 0 {
			return a.fv("error-swallowed:"+a.faultSite(), "a filler/extender returned an error %d time(s) (%v) but no render cycle failed: the container kept rendering", k, a.faultErrText())
		}
		return held(false)
	}
	site := a.faultSite()
	want := errFill.Error()
	for _, b := range sc.Bars {
		if b.FailAt > 0 || b.ExtFailAt > 0 {
			want = scriptedErr(b.ErrKind).Error()
		}
	}
	if sc.OutFailAt > 0 && site == "output" {
		want = errOut.Error()
		if sc.Seed%3 == 1 && sc.Seed%3 != 0 {
			want = io.ErrShortWrite.Error() // see memWriter.Write
		}
	}
	if site == "termsize" {
		want = unix.ENOTTY.Error() // the size query on what has become /dev/null
	}
	if !sc.NilDbg {
		if n := strings.Count(dbg, want); n != 1 {
			return a.fv(fmt.Sprintf("debug-lines:%d:%s", n, site), "a render cycle failed (%s) with %q: the debug output must report that error exactly once, it reports it %d time(s): %q", site, want, n, dbg)
		}
	}
	// no further frame after the failing cycle
	var tErr int64
	for _, h := range a.hooks() {
		if h.P == hpRenderEnd && h.B != 0 && tErr == 0 {
			tErr = h.T
		}
	}
	for _, f := range a.frames {
		if f.T0 > tErr {
			return a.fv("frame-after-error:"+site, "output write at t=%d after the render error at t=%d", f.T0, tErr)
		}
	}
	cyclesAfter := 0
	for _, h := range a.hooks() {
		if h.P == hpRenderBegin && h.T > tErr {
			cyclesAfter++
		}
	}
	a.ob("failed_cycles_examined", 1)
	if cyclesAfter > 0 {
		return a.fv("render-after-error:"+site, "%d render cycles began after the one that failed", cyclesAfter)
	}
	for bi, pw := range rr.postWait {
		if rr.bar(bi) != nil && pw.Running {
			return a.fv("running-after-error", "bar %d still running after the container shut down on a render error", bi)
		}
	}
	if v := a.notifierAfterError(site); v != nil {
		return *v
	}
	return held(true)
}

// notifierAfterError: after a render error the notifier still delivers exactly
// one value listing the bars still in the container: only the failed bar is dropped.
func (a *analysis) notifierAfterError(site string) *verdict {
	rr, sc := a.rr, a.sc
	if !sc.Notifier {
		return nil
	}
	if len(rr.notif) != 1 {
		v := a.fv(fmt.Sprintf("notifier:%d:%s", len(rr.notif), site), "after a render error the shutdown notifier delivered %d values", len(rr.notif))
		return &v
	}
	seen := map[int]bool{}
	for _, b := range rr.notif[0] {
		if b < 0 || seen[b] {
			v := a.fv("notifier-dup:"+site, "notifier list after a render error has unknown or duplicate bars: %v", rr.notif[0])
			return &v
		}
		seen[b] = true
	}
	// output write failed: the bars of that frame had all been taken off the heap for
	// it; those that nothing could have finished meanwhile are still in the container
	if n := len(a.frames); n > 0 && site == "output" {
		var lf *Frame
		for i := n - 1; i >= 0; i-- {
			if !a.frames[i].Failed {
				lf = &a.frames[i]
				break
			}
		}
		if lf != nil {
			for _, g := range lf.Groups {
				if g.ID < 0 || g.ID >= len(sc.Bars) || g.C || g.A || a.mayHaveCompleted(g.ID) || a.abortCalled(g.ID) {
					continue
				}
				if !seen[g.ID] {
					v := a.fv("notifier-missing:"+site, "bar %d was running in the last frame that reached the output, nothing could have finished it, the output writer then failed; the shutdown notifier's list %v lacks it", g.ID, rr.notif[0])
					return &v
				}
			}
		}
	}
	// bars the last good frame shows running are still in the container
	if n := len(a.frames); n > 0 && site != "output" {
		lf := a.frames[n-1]
		for _, g := range lf.Groups {
			if g.ID < 0 || g.ID >= len(sc.Bars) || g.C || g.A {
				continue
			}
			if sc.Bars[g.ID].FailAt > 0 || sc.Bars[g.ID].ExtFailAt > 0 {
				continue
			}
			if !seen[g.ID] {
				v := a.fv("notifier-missing:"+site, "bar %d was running in the last frame before the render error and did not fail, but the shutdown notifier's list %v lacks it", g.ID, rr.notif[0])
				return &v
			}
		}
	}
	return nil
}

func (a *analysis) abortCalled(bi int) bool {
	for _, o := range a.hist() {
		if o.Op.K == "abort" && o.Op.B == bi && !o.Skipped {
			return true
		}
	}
	return false
}

func (a *analysis) faultErrText() string {
	for _, b := range a.sc.Bars {
		if b.FailAt > 0 || b.ExtFailAt > 0 {
			return scriptedErr(b.ErrKind).Error()
		}
	}
	return ""
}

func (a *analysis) faultHappened() bool {
	for _, o := range func() []OutRec { a.rr.mu.Lock(); defer a.rr.mu.Unlock(); return a.rr.outs }() {
		if o.Failed {
			return true
		}
	}
	return false
}

func (a *analysis) faultSite() string {
	sc := a.sc
	if sc.Trig != nil && sc.Trig.Action == "ttyfail" {
		return "termsize"
	}
	if a.faultHappened() {
		return "output"
	}
	for _, b := range sc.Bars {
		if b.ExtFailAt > 0 {
			return "extender"
		}
	}
	return "filler"
}
