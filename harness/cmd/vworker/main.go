// vworker executes one Job (a contiguous index range of a property's seeded
// case list) against the real library and writes begin/res records to -out.
// A begin record is written before the case runs, so that the driver can
// attribute a crash or a kill to it.
package main

import (
	"encoding/json"
	"flag"
	"fmt"
	"os"
	"runtime"
	"runtime/debug"
	"sync"

	"verif/harness/internal/common"
)

type emitter struct {
	mu sync.Mutex
	f  *os.File
}

func (e *emitter) write(v interface{}) {
	b, err := json.Marshal(v)
	if err != nil {
		b, _ = json.Marshal(map[string]string{"t": "err", "msg": err.Error()})
	}
	b = append(b, '\n')
	e.mu.Lock()
	_, _ = e.f.Write(b)
	e.mu.Unlock()
}

func (e *emitter) Begin(idx int, sc interface{}) {
	var raw json.RawMessage
	if sc != nil {
		raw, _ = json.Marshal(sc)
	}
	e.write(common.Begin{T: "begin", Idx: idx, Sc: raw})
}

func (e *emitter) Res(r common.Result) {
	r.T = "res"
	e.write(r)
}

func (e *emitter) Done() { e.write(common.Done{T: "done"}) }

// runner executes job indices [From,To).
type runner func(job common.Job, em *emitter)

var runners = map[string]runner{}

func main() {
	jobStr := flag.String("job", "", "job json")
	out := flag.String("out", "", "output jsonl")
	flag.Parse()
	var job common.Job
	if err := json.Unmarshal([]byte(*jobStr), &job); err != nil {
		fmt.Fprintln(os.Stderr, "HARNESS bad job:", err)
		os.Exit(2)
	}
	f, err := os.OpenFile(*out, os.O_CREATE|os.O_WRONLY|os.O_APPEND, 0o644)
	if err != nil {
		fmt.Fprintln(os.Stderr, "HARNESS cannot open out:", err)
		os.Exit(2)
	}
	em := &emitter{f: f}
	if job.Procs > 0 {
		runtime.GOMAXPROCS(job.Procs)
	}
	debug.SetTraceback("all")
	installHooks(!job.Race)
	r, ok := runners[job.Prop]
	if !ok {
		fmt.Fprintln(os.Stderr, "HARNESS no runner for", job.Prop)
		os.Exit(2)
	}
	r(job, em)
	em.Done()
	f.Close()
}

// sigset collects distinct signatures.
type sigset map[string]struct{}

func (s sigset) add(parts ...interface{}) {
	s[common.Hs(fmt.Sprint(parts...))] = struct{}{}
}

func (s sigset) list() []string {
	out := make([]string, 0, len(s))
	for k := range s {
		out = append(out, k)
	}
	return out
}

func mustJSON(v interface{}) json.RawMessage {
	b, err := json.Marshal(v)
	if err != nil {
		b, _ = json.Marshal(fmt.Sprint(v))
	}
	return b
}

// readReplay loads a replay file written by the driver into v.
func readReplay(path string, v interface{}) {
	b, err := os.ReadFile(path)
	if err != nil {
		fmt.Fprintln(os.Stderr, "HARNESS cannot read replay:", err)
		os.Exit(2)
	}
	if err := json.Unmarshal(b, v); err != nil {
		fmt.Fprintln(os.Stderr, "HARNESS bad replay:", err)
		os.Exit(2)
	}
}

func mustUnmarshal(b []byte, v interface{}) {
	if err := json.Unmarshal(b, v); err != nil {
		fmt.Fprintln(os.Stderr, "HARNESS bad replay case:", err)
		os.Exit(2)
	}
}
