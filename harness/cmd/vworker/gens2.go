package main

// Dedicated scenario generators for C04, C06, C11, C12, C15, C17, C18.

import (
	"fmt"
	"strings"

	"verif/harness/internal/common"
)

func init() {
	for _, p := range []string{"C04", "C06", "C11", "C12", "C15", "C17", "C18"} {
		runners[p] = runSched
	}
}

func simpleBar(total int64) BarSpec {
	return BarSpec{Total: total, After: -1, Filler: "bar", AddBy: -1, Finish: "complete"}
}

// ---------------------------------------------------------------- C17

// genC17: every order of {create predecessor, predecessor finishes, predecessor
// flushed, create successor(s), successor finishes}; 1-3 successors per
// predecessor, chains up to 4; predecessors that complete / abort / are removed.
func genC17(seed uint64, part string) *Scenario {
	r := common.NewRng(seed)
	sc := &Scenario{Fam: "C17/" + part, Seed: seed, Q: -1, Width: 100, End: "natural", Policy: r.PickS("none", "light", "heavy")}
	sc.Mode = r.PickS("manual", "auto", "auto")
	if part == "manual" {
		sc.Mode = "manual"
	}
	sc.RefreshUS = r.Pick(50, 200, 1000)
	if r.Chance(1, 4) {
		sc.Q = r.Pick(0, 1)
	}
	sc.Pop = r.Chance(1, 4)
	step := func(n int) Op {
		if sc.Mode == "manual" {
			return Op{K: "rw"}
		}
		return Op{K: "waitcycles", N: int64(n)}
	}
	var ops []Op
	nb := 0
	newBar := func(after int) int {
		b := simpleBar(int64(r.Pick(1, 5, 100)))
		b.After = after
		b.AddBy = 0
		b.Rm = r.Chance(1, 3)
		b.Finish = r.PickS("complete", "complete", "abort", "abortdrop")
		b.Filler = r.PickS("bar", "nop")
		if r.Chance(1, 3) {
			b.Pre = []DecSpec{{Kind: "sync", Vary: 3}}
		}
		sc.Bars = append(sc.Bars, b)
		nb++
		return nb - 1
	}
	g := &gen{r: r, sc: sc}
	// a few unrelated bars around, so that position matters
	around := r.Range(0, 3)
	for i := 0; i < around; i++ {
		bi := newBar(-1)
		ops = append(ops, Op{K: "add", B: bi})
	}
	chains := r.Range(1, 2)
	for c := 0; c < chains; c++ {
		p := newBar(-1)
		ops = append(ops, Op{K: "add", B: p})
		if r.Bool() {
			bi := newBar(-1)
			ops = append(ops, Op{K: "add", B: bi})
		}
		depth := r.Range(1, 3)
		for d := 0; d < depth; d++ {
			nsucc := r.Pick(1, 1, 2, 3)
			// when are the successors created relative to the predecessor's life?
			when := r.Intn(4) // 0 before it finishes, 1 right after finish, 2 after one frame, 3 after it is flushed (>= 3 frames)
			var succ []int
			mk := func() {
				for k := 0; k < nsucc; k++ {
					s := newBar(p)
					succ = append(succ, s)
					ops = append(ops, Op{K: "add", B: s})
					if r.Chance(1, 3) {
						ops = append(ops, step(1))
					}
				}
			}
			if when == 0 {
				mk()
				ops = append(ops, step(r.Range(0, 2)))
			}
			ops = append(ops, g.finishOp(p, sc.Bars[p])...)
			switch when {
			case 1:
				mk()
			case 2:
				ops = append(ops, step(1))
				mk()
			case 3:
				for k := 0; k < r.Range(3, 5); k++ {
					ops = append(ops, step(1))
				}
				mk()
			}
			for k := 0; k < r.Range(0, 3); k++ {
				ops = append(ops, step(1))
			}
			// successors other than the one continuing the chain are finished in random order later
			p = succ[r.Intn(len(succ))]
		}
	}
	// finish everything left in random order with frames in between
	order := r.Perm(nb)
	for _, bi := range order {
		ops = append(ops, g.finishOp(bi, sc.Bars[bi])...)
		if r.Bool() {
			ops = append(ops, step(1))
		}
	}
	for k := 0; k < 4; k++ {
		ops = append(ops, step(1))
	}
	sc.Clients = [][]Op{ops}
	if sc.Mode == "manual" {
		sc.FinalRefr = 3
	}
	if dr := common.NewRng(seed ^ 0x1d); dr.Chance(1, 3) && len(sc.Bars) >= 3 {
		// ids chosen by the user need not be unique: a predecessor shares its id with
		// a bar it has nothing to do with
		for pi, b := range sc.Bars {
			if b.After >= 0 && b.After != pi {
				p := b.After
				sc.Bars[p].DupID = 7
				for o := range sc.Bars {
					if o != p && sc.Bars[o].After != p {
						sc.Bars[o].DupID = 7
					}
				}
				break
			}
		}
	}
	return sc
}

// ---------------------------------------------------------------- C06

func genC06(seed uint64, part string) *Scenario {
	r := common.NewRng(seed)
	if part == "manual" && common.NewRng(seed^0x5bd1e995).Chance(1, 4) {
		// hand-over programs without priority updates (one to three bars queued
		// after one predecessor, chains): "a bar that replaces a finished
		// predecessor takes that predecessor's place" judged by the rank rule,
		// which steps aside as soon as a scenario changes priorities
		sc := genC17(seed, "manual")
		sc.Fam = "C06/manual"
		return sc
	}
	prioInPop := part == "popprio" // pop programs in which finished bars get priority calls (C18's business, not C06's)
	if prioInPop {
		part = "pop"
	}
	sc := &Scenario{Fam: "C06/" + part, Seed: seed, Q: -1, Width: 100, End: "natural", Policy: r.PickS("none", "light")}
	sc.RefreshUS = r.Pick(100, 500, 2000)
	g := &gen{r: r, sc: sc}
	n := r.Pick(2, 3, 5, 8, 12, 20, 40)
	if n > 30 {
		sc.Width = 200
	}
	if common.NewRng(seed^0x0613).Chance(1, 4) {
		// more bars than the heap manager's queue holds: the bars that stay are handed
		// back on the path for a full queue (C06-m13)
		sc.Q = common.NewRng(seed^0x0613).Pick(0, 1, 2, 1)
	}
	switch part {
	case "manual":
		sc.Mode = "manual"
	case "pop":
		sc.Mode = r.PickS("manual", "auto")
		sc.Pop = true
	default:
		sc.Mode = "auto"
	}
	for i := 0; i < n; i++ {
		b := simpleBar(int64(r.Pick(5, 100)))
		b.Filler = "nop"
		if r.Chance(1, 3) {
			b.Prio = intp(r.Pick(r.Range(-3, 10), r.Range(-3, 10), -1<<31+5, 1<<31-1, 0))
		}
		if part == "pop" {
			b.NoPop = r.Chance(1, 5)
			b.Prio = nil
			if r.Chance(1, 3) {
				b.Prio = intp(r.Range(-3, 10))
			}
		}
		if i > 1 && r.Chance(1, 10) {
			b.After = r.Intn(i)
			b.Prio = nil
		}
		b.Rm = r.Chance(1, 4)
		sc.Bars = append(sc.Bars, b)
	}
	step := func() Op {
		if sc.Mode == "manual" {
			return Op{K: "rw"}
		}
		return Op{K: "waitcycles", N: 1}
	}
	mkOps := func(k int) []Op {
		var ops []Op
		for i := 0; i < k; i++ {
			bi := r.Intn(n)
			switch x := r.Intn(10); {
			case x < 5 && part != "pop":
				val := r.Pick(r.Range(-3, 12), r.Range(-3, 12), r.Range(-100, 100), -1<<31, 1<<31-1)
				if r.Bool() {
					lz := r.Bool()
					ops = append(ops, Op{K: "prio", B: bi, N: int64(val), F: lz})
					if lz && r.Chance(1, 3) {
						// the same bar, the same value, now with the immediate flavour
						if r.Bool() {
							ops = append(ops, Op{K: "setprio", B: bi, N: int64(val)})
						} else {
							ops = append(ops, Op{K: "prio", B: bi, N: int64(val), F: false})
						}
					}
				} else {
					ops = append(ops, Op{K: "setprio", B: bi, N: int64(val)})
				}
			case x < 7:
				ops = append(ops, step())
			case x < 8:
				ops = append(ops, Op{K: "incr", B: bi, N: 1})
			case x < 9 && (part == "pop" || r.Chance(1, 3)):
				ops = append(ops, g.finishOp(bi, sc.Bars[bi])...)
				if part == "pop" {
					ops = append(ops, step())
				}
			default:
				ops = append(ops, step())
			}
		}
		return ops
	}
	switch part {
	case "manual", "pop":
		ops := mkOps(r.Range(10, 120))
		if part == "pop" {
			// bars queued after a bar that has finished already: right after it
			// finished, one, two (between its second terminal frame and its pop
			// frame) or more frames later
			for k := 0; k < r.Range(0, 3); k++ {
				p := r.Intn(n)
				if sc.Bars[p].NoPop || sc.Bars[p].After >= 0 {
					continue
				}
				nb := simpleBar(int64(r.Pick(5, 100)))
				nb.Filler = "nop"
				nb.After = p
				nb.AddBy = 0
				sc.Bars = append(sc.Bars, nb)
				si := len(sc.Bars) - 1
				at := r.Intn(len(ops) + 1)
				var ins []Op
				ins = append(ins, g.finishOp(p, sc.Bars[p])...)
				for x := 0; x < r.Pick(0, 1, 2, 2, 2, 3, 5); x++ {
					ins = append(ins, step())
				}
				ins = append(ins, Op{K: "add", B: si}, step(), step(), step())
				ops = append(append(append([]Op(nil), ops[:at]...), ins...), ops[at:]...)
			}
			// and finish a few more bars afterwards so that later bars have to rise above
			for k := 0; k < r.Range(1, 4); k++ {
				bi := r.Intn(n)
				ops = append(ops, g.finishOp(bi, sc.Bars[bi])...)
				if prioInPop && r.Chance(2, 3) {
					// a priority call on the finished bar, zero to three frames after it
					// finished (in the cycle before its pop frame it sits at the top)
					for x := 0; x < r.Pick(0, 1, 2, 2, 2, 3); x++ {
						ops = append(ops, step())
					}
					ops = append(ops, Op{K: "prio", B: bi, N: int64(r.Range(-3, 12)), F: r.Bool()})
				}
				ops = append(ops, step(), step(), step())
			}
		}
		for k := 0; k < 4; k++ {
			ops = append(ops, step())
		}
		sc.Clients = [][]Op{ops}
	default:
		nc := r.Range(2, 4)
		for c := 0; c < nc; c++ {
			sc.Clients = append(sc.Clients, mkOps(r.Range(5, 40)))
		}
	}
	if sc.Mode == "manual" {
		sc.FinalRefr = 3
	}
	return sc
}

// ---------------------------------------------------------------- C12

func genC12(seed uint64, part string) *Scenario {
	pf := baseProfile
	pf.modes = []string{"auto", "manual", "auto"}
	pf.width = 260
	pf.syncP = 70
	pf.slowP = 20
	pf.nBars = []int{2, 3, 5, 8, 12}
	pf.onDoneP = 0
	pf.listenerP = 10
	pf.delayP = 0
	pf.endKinds = []string{"natural", "natural", "cancel"}
	pf.clientAddP = 40
	pf.popP = 25
	pf.afterP = 15
	pf.posTotals = true
	pf.builtinP = 30
	pf.builtinKinds = []string{"avgeta", "ewmaspeed", "ewmaeta", "spindec", "emptyname", "emptyname"}
	pf.emptyMsgP = 25
	if part == "nq" {
		pf.qKinds = []string{"zero", "one", "two"}
	}
	sc := genMixed(seed, "C12/"+part, pf)
	for i := range sc.Bars {
		if sc.Bars[i].Filler == "spinner" {
			sc.Bars[i].Filler = "bar"
		}
	}
	// texts whose display width differs from their rune and byte counts
	gr := common.NewRng(seed ^ 0x9e3779b97f4a7c15)
	for i := range sc.Bars {
		for _, ds := range [][]DecSpec{sc.Bars[i].Pre, sc.Bars[i].App} {
			for k := range ds {
				if ds[k].Kind == "sync" && gr.Chance(1, 3) {
					ds[k].Glyph = gr.Pick(1, 2)
				}
			}
		}
	}
	// more frames: every client ends with a few cycle waits
	for ci := range sc.Clients {
		for k := 0; k < 3; k++ {
			if sc.Mode == "manual" {
				sc.Clients[ci] = append(sc.Clients[ci], Op{K: "rw"})
			} else {
				sc.Clients[ci] = append(sc.Clients[ci], Op{K: "waitcycles", N: 1})
			}
		}
	}
	if sc.Mode == "manual" {
		sc.FinalRefr = 4
	}
	return sc
}

// ---------------------------------------------------------------- C11

func genC11(seed uint64, part string) *Scenario {
	r := common.NewRng(seed)
	sc := &Scenario{Fam: "C11/" + part, Seed: seed, Q: -1, Width: 100, Policy: r.PickS("none", "light", "heavy", "barop")}
	if sc.Policy == "barop" {
		sc.Policy, sc.Target = "targeted", "bar.op"
	}
	sc.Mode = r.PickS("auto", "auto", "manual", "none")
	sc.RefreshUS = r.Pick(50, 200, 1000)
	sc.End = r.PickS("natural", "natural", "cancel", "shutdown")
	if r.Chance(1, 4) && part != "" {
		// Abort racing the completing increment on several bars at once, with a reader watching
		sc.Mode = "auto"
		sc.End = "natural"
		sc.Trig = nil
		nb := r.Range(3, 8)
		var a, b, c []Op
		for i := 0; i < nb; i++ {
			bar := simpleBar(int64(r.Pick(1, 2, 3)))
			bar.Filler = "nop"
			sc.Bars = append(sc.Bars, bar)
			for k := int64(0); k < bar.Total-1; k++ {
				a = append(a, Op{K: "incr", B: i, N: 1})
			}
		}
		for i := 0; i < nb; i++ {
			a = append(a, Op{K: "incr", B: i, N: 1}, Op{K: "compl", B: i})
			b = append(b, Op{K: "abort", B: i, F: r.Bool()}, Op{K: "abrt", B: i})
			c = append(c, Op{K: "compl", B: i}, Op{K: "abrt", B: i}, Op{K: "compl", B: i})
		}
		for i := 0; i < nb; i++ {
			c = append(c, Op{K: "compl", B: i}, Op{K: "abrt", B: i})
		}
		sc.Clients = [][]Op{a, b, c}
		return sc
	}
	if r.Chance(1, 8) && part != "" {
		// bars of unknown total completed while still empty (an empty input), then
		// touched again while another bar keeps the container from refreshing early:
		// SetTotal, updates and Abort must leave them completed
		sc.Mode = "auto"
		sc.RefreshUS = r.Pick(2000, 10000)
		sc.End = "natural"
		sc.Trig = nil
		anchor := simpleBar(100)
		anchor.Filler = "nop"
		sc.Bars = append(sc.Bars, anchor)
		nb := r.Range(1, 4)
		var a, c []Op
		for i := 1; i <= nb; i++ {
			bar := simpleBar(int64(r.Pick(0, -1)))
			bar.Filler = "nop"
			bar.Finish = "settotal"
			sc.Bars = append(sc.Bars, bar)
			a = append(a, Op{K: "settotal", B: i, N: -1, F: true}, Op{K: "compl", B: i},
				Op{K: "settotal", B: i, N: int64(r.Pick(5, 10, 0)), F: false}, Op{K: "compl", B: i},
				Op{K: "incr", B: i, N: int64(r.Pick(0, 1))}, Op{K: "abort", B: i, F: r.Bool()}, Op{K: "compl", B: i}, Op{K: "abrt", B: i})
			c = append(c, Op{K: "compl", B: i}, Op{K: "abrt", B: i}, Op{K: "get", B: i})
		}
		sc.Clients = [][]Op{a, c}
		return sc
	}
	n := r.Range(1, 4)
	for i := 0; i < n; i++ {
		total := int64(r.Pick(0, -1, 1, 3, 10))
		b := simpleBar(total)
		b.Filler = "nop"
		b.Finish = r.PickS("complete", "abort", "abortdrop", "settotal")
		if total <= 0 && b.Finish == "complete" {
			b.Finish = "settotal"
		}
		b.Rm = r.Chance(1, 4)
		sc.Bars = append(sc.Bars, b)
	}
	// programs that cross the terminal transition and keep going with non-decreasing updates
	nc := r.Range(1, 4)
	for c := 0; c < nc; c++ {
		var ops []Op
		k := r.Range(4, 24)
		for i := 0; i < k; i++ {
			bi := r.Intn(n)
			t := sc.Bars[bi].Total
			switch r.Intn(14) {
			case 0, 1, 2:
				ops = append(ops, Op{K: "incr", B: bi, N: int64(r.Pick(0, 1, 1, 2, 5))})
			case 3:
				ops = append(ops, Op{K: "abort", B: bi, F: r.Bool()})
			case 4, 5, 6, 7:
				ops = append(ops, Op{K: "get", B: bi})
			case 8:
				ops = append(ops, Op{K: "enable", B: bi})
			case 9:
				ops = append(ops, Op{K: "settotal", B: bi, N: int64(r.Pick(-1, 0, 3, 10)), F: r.Bool()})
			case 10:
				if t > 0 {
					ops = append(ops, Op{K: "setcur", B: bi, N: t})
				} else {
					ops = append(ops, Op{K: "compl", B: bi})
				}
			case 11:
				ops = append(ops, Op{K: "abrt", B: bi}, Op{K: "compl", B: bi})
			case 12:
				if sc.Mode == "manual" {
					ops = append(ops, Op{K: "rw"})
				} else {
					ops = append(ops, Op{K: "waitcycles", N: 1})
				}
			default:
				ops = append(ops, Op{K: "yield", N: int64(r.Intn(3))})
			}
		}
		sc.Clients = append(sc.Clients, ops)
	}
	if sc.End != "natural" && r.Chance(2, 3) {
		sc.Trig = &Trigger{Point: r.PickS("bar.trigger", "flush.bar", "bar.exit", "bar.render.terminal", "render.begin"), Occ: r.Range(1, 3), A: -1, Bar: -1, Action: sc.End}
		if sc.Trig.Point == "flush.bar" {
			sc.Trig.A = r.Pick(-1, 0, 1)
		}
	}
	if sc.Mode == "manual" {
		sc.FinalRefr = 3
	}
	return sc
}

// ---------------------------------------------------------------- C15

func genC15(seed uint64, part string) *Scenario {
	r := common.NewRng(seed)
	pf := baseProfile
	pf.modes = []string{"auto", "auto", "manual"}
	pf.nBars = []int{1, 2, 3, 5, 8}
	pf.syncP = 60
	pf.slowP = 35
	pf.endKinds = []string{"natural"}
	pf.delayP = 0
	pf.clientAddP = 10
	pf.waitEarlyP = 0
	pf.afterP = 5
	pf.width = 160
	if part == "pty" {
		pf.modes = []string{"pty"}
		pf.maxDecs = 1
		pf.syncP = 30
		pf.extP = 0
		pf.nBars = []int{1, 2, 3}
	}
	sc := genMixed(seed, "C15/"+part, pf)
	n := len(sc.Bars)
	k := r.Pick(1, 1, 2, 3, 5, r.Range(1, 12))
	switch part {
	case "pty":
		sc.PtyRows, sc.PtyCols = r.Pick(8, 24), r.Pick(80, 120)
		sc.Width = 0
		sc.Trig = &Trigger{Point: r.PickS("render.begin", "render.requested"), Occ: k, A: -1, Bar: -1, Action: "ttyfail"}
		for ci := range sc.Clients {
			var keep []Op
			for _, o := range sc.Clients[ci] {
				if o.K != "write" {
					keep = append(keep, o)
				}
			}
			sc.Clients[ci] = keep
		}
	case "output":
		sc.OutFailAt = k
	default:
		bi := r.Intn(n)
		sc.Bars[bi].ErrKind = r.Pick(0, 0, 1, 2)
		if r.Chance(1, 3) {
			sc.Bars[bi].ExtFailAt = k
			if sc.Bars[bi].Ext == 0 {
				sc.Bars[bi].Ext = 1
			}
		} else {
			sc.Bars[bi].FailAt = k
			if sc.Mode == "auto" && r.Chance(1, 4) {
				// the fault first strikes in a frame rendered on the way out
				sc.Bars[bi].FailAt = failLate
				sc.Bars[bi].Rm = false
			}
		}
		// the failing bar is part of fewer synchronised columns than the others
		if r.Bool() {
			sc.Bars[bi].Pre, sc.Bars[bi].App = nil, nil
		}
	}
	// make sure cycles happen: clients wait for cycles / refresh
	for ci := range sc.Clients {
		for x := 0; x < 3; x++ {
			if sc.Mode == "manual" {
				sc.Clients[ci] = append(sc.Clients[ci], Op{K: "rw"})
			} else {
				sc.Clients[ci] = append(sc.Clients[ci], Op{K: "waitcycles", N: 2})
			}
		}
	}
	if len(sc.Clients) == 0 {
		var ops []Op
		for x := 0; x < 6; x++ {
			if sc.Mode == "manual" {
				ops = append(ops, Op{K: "rw"})
			} else {
				ops = append(ops, Op{K: "waitcycles", N: 2})
			}
		}
		sc.Clients = [][]Op{ops}
	}
	sc.FinalRefr = 4
	sc.NilDbg = common.NewRng(common.H(seed, "nildbg")).Chance(1, 6)
	return sc
}

// ---------------------------------------------------------------- C04 / C18

func genC04(seed uint64, part string, prop string) *Scenario {
	r := common.NewRng(seed)
	pf := baseProfile
	pf.modes = []string{"auto", "auto", "manual"}
	pf.nBars = []int{1, 2, 3, 5, 8, 12}
	pf.extP = 35
	pf.rmP = 30
	pf.popP = 35
	pf.writeP = 70
	pf.clientAddP = 45
	pf.afterP = 10
	pf.delayP = 0
	pf.endKinds = []string{"natural", "natural", "cancel"}
	pf.width = 120
	pf.maxDecs = 2
	if prop == "C18" {
		pf.popP = 100
		pf.rmP = 15
		pf.afterP = 8
	}
	resize := part == "resize"
	if resize {
		part = "pty"
		pf.popP = 0
	}
	switch part {
	case "none":
		pf.modes = []string{"none"}
		pf.popP = 0
	case "delay":
		pf.delayP = 100
	case "pty":
		pf.modes = []string{"pty"}
		pf.maxDecs = 0
		pf.nBars = []int{1, 2, 3, 4, 5, 6, 8, 10, 26}
		pf.waitEarlyP = 0
	}
	sc := genMixed(seed, prop+"/"+part, pf)
	if part == "pty" {
		sc.PtyRows = r.Pick(2, 3, 5, 8, 24)
		sc.PtyCols = r.Pick(60, 80, 200)
		sc.Width = 0
		if r.Chance(1, 3) {
			sc.Width = r.Range(40, sc.PtyCols)
		}
		if len(sc.Bars) > 12 && sc.PtyRows < 24 {
			sc.Bars = sc.Bars[:r.Range(1, 10)]
			fixRefs(sc)
		}
		for i := range sc.Bars {
			sc.Bars[i].OnDone = false
			sc.Bars[i].Filler = r.PickS("bar", "nop")
			if sc.Bars[i].Ext > 2 {
				sc.Bars[i].Ext = 2
			}
		}
		// keep text lines shorter than the terminal
		for ci := range sc.Clients {
			for oi, o := range sc.Clients[ci] {
				if o.K == "write" && len(o.S) > sc.PtyCols-2 {
					sc.Clients[ci][oi].S = o.S[:20] + "~\n"
				}
			}
		}
		if resize {
			// the window is resized once or twice while the container renders; the
			// container takes its width from the terminal
			sc.Fam = prop + "/resize"
			sc.Width = 0
			sc.PtyRows = r.Pick(8, 24)
			sc.PtyCols = r.Pick(80, 200)
			for k := 0; k < r.Range(1, 2); k++ {
				op := Op{K: "resize", N: int64(r.Pick(2, 3, 5, 8, 24, 40)), B: r.Pick(40, 60, 80, 120, 200)}
				var tail []Op
				for x := 0; x < r.Range(2, 6); x++ {
					tail = append(tail, Op{K: "waitcycles", N: 1})
				}
				if len(sc.Clients) == 0 {
					sc.Clients = append(sc.Clients, nil)
				}
				ci := r.Intn(len(sc.Clients))
				at := r.Intn(len(sc.Clients[ci]) + 1)
				ins := append([]Op{{K: "waitcycles", N: int64(r.Range(1, 3))}, op}, tail...)
				sc.Clients[ci] = append(append(append([]Op(nil), sc.Clients[ci][:at]...), ins...), sc.Clients[ci][at:]...)
			}
		}
	}
	for i := range sc.Bars {
		if sc.Bars[i].Ext > 0 && r.Chance(1, 3) {
			sc.Bars[i].ExtFrag = true
		}
	}
	// extra text traffic of several lines per cycle
	if part != "none" && len(sc.Clients) > 0 && r.Chance(2, 3) {
		seq := 5000
		ci := r.Intn(len(sc.Clients))
		for k := 0; k < r.Range(1, 6); k++ {
			var sb strings.Builder
			for l := 0; l < r.Range(1, 5); l++ {
				seq++
				fmt.Fprintf(&sb, "~x%d:%d:%s~\n", ci, seq, strings.Repeat("q", r.Intn(12)))
			}
			at := r.Intn(len(sc.Clients[ci]) + 1)
			ops := append([]Op(nil), sc.Clients[ci][:at]...)
			ops = append(ops, Op{K: "write", S: sb.String()})
			sc.Clients[ci] = append(ops, sc.Clients[ci][at:]...)
		}
	}
	for ci := range sc.Clients {
		sc.Clients[ci] = append(sc.Clients[ci], Op{K: "waitcycles", N: 2})
	}
	if sc.Mode == "manual" {
		sc.FinalRefr = 4
	}
	return sc
}

// fixRefs repairs After/op references after the bar list was cut.
func fixRefs(sc *Scenario) {
	n := len(sc.Bars)
	for i := range sc.Bars {
		if sc.Bars[i].After >= n {
			sc.Bars[i].After = -1
		}
	}
	for ci := range sc.Clients {
		var keep []Op
		for _, o := range sc.Clients[ci] {
			if o.B < n {
				keep = append(keep, o)
			}
		}
		sc.Clients[ci] = keep
	}
}
