package main

// Scenario generators per property and the runner of the schedule-family checks.

import (
	"fmt"
	"os"
	"runtime"
	"strings"
	"time"

	"verif/harness/internal/stuck"

	"verif/harness/internal/common"
)

func init() {
	for _, p := range []string{"C01", "C02", "C03", "C05", "C13", "C14", "C16"} {
		runners[p] = runSched
	}
}

// profile steers the mixed generator.
type profile struct {
	modes        []string
	nBars        []int
	qKinds       []string // default | zero | one | two | nminus1 | n
	syncP        int      // % of decorators that are synced
	slowP        int      // % of decorators that are slow
	maxDecs      int
	popP         int // % of scenarios in pop mode
	rmP          int // % of bars remove-on-complete
	afterP       int // % of bars queued after an earlier one
	extP         int // % of bars with extender lines
	clientAddP   int // % of bars added by a client (while rendering)
	writeP       int // % of scenarios with Progress.Write traffic
	prioP        int // % of scenarios with priority updates
	endKinds     []string
	trigP        int // % of cancel endings placed by a hook trigger
	late         bool
	notifierP    int
	listenerP    int // % of bars carrying a shutdown listener
	onDoneP      int
	delayP       int
	uwgP         int
	abortP       int // % of bars finished by abort
	waitEarlyP   int
	maxClients   int
	maxOps       int
	width        int
	policies     []string
	targets      []string
	posTotals    bool     // only positive totals
	staleP       int      // % of clients that keep using a bar after it left the display
	narrowP      int      // % of scenarios with a container only a few columns wide
	emptyMsgP    int      // % of wrapped decorators whose on-complete / on-abort message is empty
	nilOut       bool     // some scenarios discard their output (C01/C02 only: they do not read frames)
	builtinKinds []string // nil = all; elapsed and avgspeed print nothing on a bar that finished before its first frame
	builtinP     int      // % of plain decorators turned into built-in ones (speed, ETA, elapsed, spinner, empty name), half of them width-synchronised
}

var baseProfile = profile{
	modes:      []string{"auto", "auto", "manual", "none"},
	nBars:      []int{0, 1, 2, 3, 5, 8, 17},
	qKinds:     []string{"default", "default", "zero", "one", "two", "nminus1", "n"},
	syncP:      35,
	slowP:      15,
	maxDecs:    3,
	popP:       20,
	rmP:        20,
	afterP:     10,
	extP:       10,
	clientAddP: 20,
	writeP:     30,
	prioP:      30,
	endKinds:   []string{"natural", "natural", "natural", "cancel", "shutdown"},
	trigP:      40,
	notifierP:  40,
	listenerP:  10,
	onDoneP:    20,
	delayP:     8,
	uwgP:       10,
	abortP:     25,
	waitEarlyP: 15,
	maxClients: 4,
	maxOps:     12,
	width:      100,
	staleP:     25,
	policies:   []string{"none", "light", "light", "heavy", "targeted"},
	targets:    []string{"hm.push", "hm.req", "dist.collected", "bar.exit", "early.refresh", "flush.bar", "render.requested", "bar.trigger", "bar.op", "bar.op"},
}

var trigPoints = []string{"render.begin", "render.requested", "flush.bar", "flush.write", "hm.req", "hm.push", "dist.collected", "bar.exit", "bar.render.terminal", "early.refresh", "bar.trigger", "add", "render.end"}

func unbracketed(kind string) bool { return kind == "avgeta" || kind == "ewmaeta" || kind == "elapsed" }

func genMixed(seed uint64, fam string, pf profile) *Scenario {
	r := common.NewRng(seed)
	sc := &Scenario{Fam: fam, Seed: seed}
	g := &gen{r: r, sc: sc}
	sc.Mode = pf.modes[r.Intn(len(pf.modes))]
	sc.RefreshUS = r.Pick(50, 100, 300, 1000, 3000)
	sc.Width = pf.width
	if r.Chance(pf.narrowP, 100) {
		sc.Width = r.Pick(3, 6, 10, 16, 24) // decorators use up the row: later ones get no room
	}
	if pf.nilOut {
		// WithOutput(nil) / WithDebugOutput(nil) discard: a third of the non-refreshing
		// scenarios and a tenth of the auto-refreshing ones (their frames are not read)
		r3 := common.NewRng(common.H(seed, "nilout"))
		sc.NilOut = sc.Mode == "none" && r3.Chance(1, 3) || sc.Mode == "auto" && r3.Chance(1, 10)
	}
	sc.Pop = r.Chance(pf.popP, 100)
	sc.Notifier = r.Chance(pf.notifierP, 100)
	sc.UWG = r.Chance(pf.uwgP, 100)
	sc.Delay = r.Chance(pf.delayP, 100)
	sc.Late = pf.late
	sc.Policy = pf.policies[r.Intn(len(pf.policies))]
	if sc.Policy == "targeted" {
		sc.Target = pf.targets[r.Intn(len(pf.targets))]
	}
	n := pf.nBars[r.Intn(len(pf.nBars))]
	switch pf.qKinds[r.Intn(len(pf.qKinds))] {
	case "default":
		sc.Q = -1
	case "zero":
		sc.Q = 0
	case "one":
		sc.Q = 1
	case "two":
		sc.Q = 2
	case "nminus1":
		sc.Q = common.MaxInt(0, n-1)
	default:
		sc.Q = n
	}
	sc.End = pf.endKinds[r.Intn(len(pf.endKinds))]
	nClients := r.Range(0, pf.maxClients)
	if n == 0 {
		nClients = r.Range(0, 1)
	}
	sc.Clients = make([][]Op, nClients)
	// bars
	rowsBudget := sc.Width - 4
	for i := 0; i < n; i++ {
		total := int64(r.Pick(1, 5, 10, 100, 1000))
		if r.Chance(1, 8) && !pf.posTotals {
			total = int64(r.Pick(0, -1))
		}
		b := g.plainBar(total)
		b.Filler = r.PickS("bar", "bar", "spinner", "nop")
		b.Rm = r.Chance(pf.rmP, 100)
		b.NoPop = sc.Pop && r.Chance(1, 4)
		if r.Chance(pf.extP, 100) && rowsBudget > 8 {
			b.Ext = r.Range(1, 3)
			b.ExtRev = r.Bool()
		}
		rowsBudget -= 1 + b.Ext
		if rowsBudget < 2 {
			b.Ext = 0
		}
		b.Pre = g.randDecs(pf.maxDecs, pf.syncP, pf.slowP)
		b.App = g.randDecs(pf.maxDecs, pf.syncP, pf.slowP)
		for _, ds := range [][]DecSpec{b.Pre, b.App} {
			for di := range ds {
				if ds[di].Wrap != "" && r.Chance(pf.emptyMsgP, 100) {
					ds[di].Wrap = r.PickS("oncompleteE", "onabortE")
				}
			}
		}
		if pf.builtinP > 0 {
			// own stream: the rest of the scenario is the same with and without this profile knob
			r2 := common.NewRng(common.H(seed, "builtin", i))
			b.FinEwma = r2.Chance(1, 3)
			if b.Filler == "nop" && r2.Bool() {
				b.Filler = "nilfunc"
			}
			for _, ds := range [][]DecSpec{b.Pre, b.App} {
				for di := range ds {
					if ds[di].Kind == "sync" || !r2.Chance(pf.builtinP, 100) {
						continue
					}
					ds[di].Sync = r2.Chance(2, 3)
					ds[di].Slow = 0
					if r2.Bool() {
						kinds := pf.builtinKinds
						if kinds == nil {
							kinds = []string{"avgspeed", "avgeta", "elapsed", "ewmaspeed", "ewmaeta", "spindec", "emptyname", "emptyname"}
						}
						ds[di].Kind = kinds[r2.Intn(len(kinds))]
						// texts without brackets (times) must not touch: the row parser splits fields at brackets and spaces
						if di > 0 && unbracketed(ds[di].Kind) && unbracketed(ds[di-1].Kind) {
							ds[di].Kind = "spindec"
						}
						if ds[di].Kind == "emptyname" {
							ds[di].Wrap = r2.PickS("", "", "meta")
							ds[di].W = r2.Pick(0, 0, 0, 3)
						}
					}
				}
			}
		}
		if r.Chance(pf.listenerP, 100) {
			d := DecSpec{Kind: "listener", Wrap: r.PickS("", "oncomplete", "meta", "deep", "both"), Depth: r.Range(1, 3), Vary: r.Intn(2)}
			if r.Bool() {
				b.Pre = append(b.Pre, d)
			} else {
				b.App = append(b.App, d)
			}
		}
		b.OnDone = r.Chance(pf.onDoneP, 100)
		switch {
		case r.Chance(pf.abortP, 100):
			b.Finish = r.PickS("abort", "abortdrop")
		case total <= 0:
			b.Finish = "settotal"
		default:
			b.Finish = "complete"
		}
		if r.Chance(1, 10) {
			b.Prio = intp(r.Range(-5, 20))
		}
		if nClients > 0 && r.Chance(pf.clientAddP, 100) {
			b.AddBy = r.Intn(nClients)
		}
		if i > 0 && r.Chance(pf.afterP, 100) {
			// predecessor: an earlier bar created by the director or by the same client
			var cands []int
			for j := 0; j < i; j++ {
				if sc.Bars[j].AddBy == -1 || sc.Bars[j].AddBy == b.AddBy {
					cands = append(cands, j)
				}
			}
			if len(cands) > 0 {
				b.After = cands[r.Intn(len(cands))]
				b.Prio = nil
			}
		}
		sc.Bars = append(sc.Bars, b)
	}
	// client programs
	wseq := 0
	for ci := range sc.Clients {
		var ops []Op
		// adds first come in order so that predecessors exist
		for bi, b := range sc.Bars {
			if b.AddBy == ci {
				ops = append(ops, Op{K: "add", B: bi})
				if r.Bool() {
					ops = append(ops, g.workOps(bi, b.Total, r.Range(0, 3))...)
				}
			}
		}
		nops := r.Range(1, pf.maxOps)
		for k := 0; k < nops && n > 0; k++ {
			bi := r.Intn(n)
			b := sc.Bars[bi]
			switch x := r.Intn(100); {
			case x < 45:
				ops = append(ops, g.workOps(bi, b.Total, 1)...)
			case x < 55 && r.Chance(pf.prioP, 100):
				ops = append(ops, Op{K: r.PickS("prio", "setprio"), B: bi, N: int64(r.Range(-3, 30)), F: r.Bool()})
			case x < 65 && r.Chance(pf.writeP, 100):
				wseq++
				ops = append(ops, Op{K: "write", S: fmt.Sprintf("~w%d:%d:%s~\n", ci, wseq, strings.Repeat("t", r.Intn(20)))})
			case x < 72:
				ops = append(ops, g.finishOp(bi, b)...)
			case x < 76:
				ops = append(ops, Op{K: "abort", B: bi, F: r.Bool()})
			case x < 80:
				ops = append(ops, Op{K: "traverse", B: bi})
			case x < 84 && sc.Mode == "manual":
				ops = append(ops, Op{K: "refresh"})
			case x < 88:
				ops = append(ops, Op{K: "get", B: bi})
			case x < 89:
				ops = append(ops, Op{K: r.PickS("proxyread", "proxywrite"), B: bi, N: int64(r.Intn(20))})
			case x < 90:
				ops = append(ops, Op{K: r.PickS("avgadjust", "ewmaincrby", "incrby", "enable", "barwaitdone"), B: bi, N: int64(r.Intn(3))})
			case x < 93 && sc.Mode != "none":
				ops = append(ops, Op{K: "waitcycles", N: int64(r.Range(1, 3))})
			default:
				ops = append(ops, Op{K: "sleep", N: int64(r.Pick(5, 50, 300))})
			}
		}
		// use-after-leave: finish a bar that leaves the display (removed, dropped,
		// popped), let a few cycles pass, then keep calling it and the container
		// about it (priority updates on a bar that is no longer in the heap, ...)
		if n > 1 && sc.Mode != "none" && r.Chance(pf.staleP, 100) {
			bi := r.Intn(n)
			b := sc.Bars[bi]
			if b.AddBy == -1 || b.AddBy == ci {
				if r.Bool() && !sc.Pop {
					ops = append(ops, Op{K: "abort", B: bi, F: true})
				} else {
					ops = append(ops, g.finishOp(bi, b)...)
				}
				for k := 0; k < r.Range(2, 4); k++ {
					if sc.Mode == "manual" {
						ops = append(ops, Op{K: "rw"})
					} else {
						ops = append(ops, Op{K: "waitcycles", N: 1})
					}
				}
				for k := 0; k < r.Range(1, 5); k++ {
					switch r.Intn(7) {
					case 0, 1:
						ops = append(ops, Op{K: "setprio", B: bi, N: int64(r.Range(-3, 30))})
					case 2:
						ops = append(ops, Op{K: "prio", B: bi, N: int64(r.Range(-3, 30)), F: r.Bool()})
					case 3:
						ops = append(ops, Op{K: "get", B: bi})
					case 4:
						ops = append(ops, Op{K: "incr", B: bi, N: 1})
					case 5:
						ops = append(ops, Op{K: "abort", B: bi, F: r.Bool()})
					default:
						ops = append(ops, Op{K: "barwaitdone", B: bi})
					}
					if r.Bool() {
						ops = append(ops, Op{K: "waitcycles", N: 1})
					}
				}
			}
		}
		if sc.Mode == "manual" {
			ops = append(ops, Op{K: "refresh"})
		}
		sc.Clients[ci] = ops
	}
	if sc.Delay && r.Chance(2, 3) && nClients > 0 {
		ci := r.Intn(nClients)
		at := r.Intn(len(sc.Clients[ci]) + 1)
		ops := append([]Op(nil), sc.Clients[ci][:at]...)
		ops = append(ops, Op{K: "release"})
		sc.Clients[ci] = append(ops, sc.Clients[ci][at:]...)
	}
	if sc.End != "natural" {
		switch {
		case r.Chance(pf.trigP, 100):
			sc.Trig = &Trigger{Point: trigPoints[r.Intn(len(trigPoints))], Occ: r.Range(1, 4), A: -1, Bar: -1, Action: sc.End}
		case nClients > 0 && r.Bool():
			// by step: placed at a random position of a client's program
			ci := r.Intn(nClients)
			at := r.Intn(len(sc.Clients[ci]) + 1)
			ops := append([]Op(nil), sc.Clients[ci][:at]...)
			ops = append(ops, Op{K: sc.End})
			sc.Clients[ci] = append(ops, sc.Clients[ci][at:]...)
		}
	}
	if sc.Mode == "manual" {
		sc.FinalRefr = r.Range(0, 4)
	}
	if sc.End == "natural" && nClients > 0 && n > 0 && r.Chance(pf.waitEarlyP, 100) {
		// Wait is invoked while clients still run; bar 0 is an anchor created by the
		// director and finished by the last op of client 0 so that the wait group
		// never reaches zero before the clients are done adding
		okAnchor := true
		for _, b := range sc.Bars {
			if b.AddBy >= 0 && b.After >= 0 {
				okAnchor = false
			}
		}
		if okAnchor {
			sc.WaitEarly = true
			sc.Anchor = true
			sc.Bars[0].AddBy = -1
			sc.Bars[0].After = -1
			// every client-added bar is finished by its client; bar 0 by client 0 at the very end
			for ci := range sc.Clients {
				for bi, b := range sc.Bars {
					if b.AddBy == ci {
						sc.Clients[ci] = append(sc.Clients[ci], g.finishOp(bi, b)...)
					}
				}
			}
			// strip ops that would finish the anchor early
			for ci := range sc.Clients {
				var keep []Op
				for _, o := range sc.Clients[ci] {
					if o.B == 0 && (o.K == "add" || o.K == "abort" || o.K == "setcur" || o.K == "ewmasetcur" || o.K == "settotal" || o.K == "incr" || o.K == "increment" || o.K == "ewmaincr" || o.K == "proxyread") {
						continue
					}
					keep = append(keep, o)
				}
				sc.Clients[ci] = keep
			}
		}
	}
	return sc
}

// anchorFinish is run by the director in WaitEarly scenarios: after all
// clients are done the anchor bar is finished from a helper goroutine.

func genFor(prop, part string, seed uint64) *Scenario {
	part = strings.TrimSuffix(part, "-go126") // same family, other toolchain
	pf := baseProfile
	switch prop {
	case "C10":
		return genC10(seed, part)
	case "C17":
		return genC17(seed, part)
	case "C06":
		return genC06(seed, part)
	case "C12":
		if part == "swap" {
			return genSwap(seed, "C12/swap")
		}
		return genC12(seed, part)
	case "C11":
		return genC11(seed, part)
	case "C15":
		return genC15(seed, part)
	case "C04", "C18":
		if part == "late" {
			// pop-mode programs with bars queued after a bar that has already
			// finished / popped out, and bars finishing afterwards which have to
			// rise above them (C06's generator; here judged by the tape oracle)
			sc := genC06(seed, "popprio")
			sc.Fam = prop + "/late"
			return sc
		}
		return genC04(seed, part, prop)
	case "C01":
		if part == "swap" {
			return genSwap(seed, "C01/swap")
		}
		if part == "queue" {
			// every order of {predecessor created / finished / flushed long ago, successors created}
			sc := genC17(seed, "mixed")
			sc.Fam = "C01/queue"
			return sc
		}
		pf.narrowP, pf.emptyMsgP, pf.builtinP, pf.nilOut = 15, 30, 30, true
		if part == "err" {
			sc := genC15(seed, common.NewRng(seed).PickS("filler", "filler", "output", "pty"))
			sc.Fam = "C01/err"
			return sc
		}
		pf.nBars = []int{0, 1, 2, 3, 5, 8, 17, 40}
		pf.late = false
		if part == "nq" {
			pf.qKinds = []string{"zero", "zero", "one", "two", "nminus1"}
			pf.nBars = []int{2, 3, 5, 8, 17, 40}
			pf.syncP = 50
		}
		if part == "big" {
			pf.nBars = []int{130, 200}
			pf.maxDecs = 1
			pf.qKinds = []string{"default", "zero", "n"}
			pf.width = 260
			pf.extP = 0
			pf.policies = []string{"none", "light"}
			pf.slowP = 3
		}
	case "C02":
		pf.narrowP, pf.emptyMsgP, pf.builtinP, pf.nilOut = 10, 30, 30, true
		if part == "waiters" {
			return genC02Waiters(seed)
		}
		if part == "err" {
			sc := genC15(seed, common.NewRng(seed).PickS("filler", "filler", "output", "pty"))
			sc.Fam = "C02/err"
			sc.Late = true
			return sc
		}
		pf.late = true
		pf.endKinds = []string{"natural", "cancel", "shutdown", "cancel"}
		pf.clientAddP = 40
		pf.waitEarlyP = 25
		if part == "nq" {
			pf.qKinds = []string{"zero", "zero", "one", "two", "nminus1"}
			pf.nBars = []int{2, 3, 5, 8, 17, 40}
		}
	case "C14":
		if part == "err" {
			sc := genC15(seed, common.NewRng(seed).PickS("filler", "filler", "output"))
			sc.Fam = "C14/err"
			return sc
		}
		pf.endKinds = []string{"cancel", "shutdown"}
		pf.listenerP = 60
		pf.notifierP = 80
		pf.trigP = 70
		pf.modes = []string{"auto", "auto", "manual", "none"}
	case "C16":
		if part == "queue" {
			sc := genC17(seed, "mixed")
			sc.Fam = "C16/queue"
			return sc
		}
		if part == "err" {
			sc := genC15(seed, common.NewRng(seed).PickS("filler", "filler", "output", "pty"))
			sc.Fam = "C16/err"
			return sc
		}
		pf.late = false
		pf.endKinds = []string{"natural", "natural", "cancel", "shutdown"}
		pf.afterP = 20
		pf.popP = 30
		pf.narrowP = 12 // rows whose width is used up before every decorator was drawn
		pf.emptyMsgP = 25 // wrappers whose final message is empty (they still take part in their column)
		pf.syncP = 40
	case "C05":
		if part == "queue" {
			return genC05Queue(seed)
		}
		if part == "late" {
			// pop-mode programs with bars queued after a bar that has finished
			// zero to five frames earlier (C06's generator)
			sc := genC06(seed, "pop")
			sc.Fam = "C05/late"
			sc.Notifier = true
			if r := common.NewRng(seed ^ 0x55); r.Bool() {
				// the container is cancelled while flush holds a bar in the frame that
				// moves it to the top: one frame before it pops out it is still in the container
				sc.End = "cancel"
				sc.Trig = &Trigger{Point: "flush.bar", Occ: r.Range(1, 4), A: 1, Bar: -1, Action: r.PickS("cancel", "shutdown")}
			}
			return sc
		}
		if part == "err" {
			sc := genC15(seed, common.NewRng(seed^0x05).PickS("filler", "filler", "output"))
			sc.Fam = "C05/err"
			sc.Notifier = true
			return sc
		}
		pf.modes = []string{"auto", "auto", "manual"}
		pf.delayP = 0
		pf.clientAddP = 50
		pf.rmP = 30
		pf.abortP = 35
		pf.afterP = 15
		pf.popP = 30
		pf.nBars = []int{1, 2, 3, 5, 8, 12}
		pf.endKinds = []string{"natural", "natural", "natural", "cancel"}
		pf.notifierP = 60
		pf.maxOps = 20
		if part == "nq" {
			pf.qKinds = []string{"zero", "one", "two", "nminus1"}
			pf.nBars = []int{3, 5, 8, 12, 17}
		}
	case "C03":
		pf.modes = []string{"auto"}
		pf.delayP = 0
		pf.onDoneP = 70
		pf.nBars = []int{1, 2, 3, 5, 8, 12}
		pf.endKinds = []string{"natural", "natural", "cancel", "shutdown"}
		pf.waitEarlyP = 40
		pf.clientAddP = 30
		if part == "busy" {
			// every scenario ends by cancel / Shutdown while workers keep the bars'
			// goroutines occupied: only the final render can show the aborted state
			pf.endKinds = []string{"cancel", "shutdown"}
			pf.onDoneP = 100
			pf.nBars = []int{1, 2, 3, 5}
			pf.waitEarlyP = 0
			pf.clientAddP = 0
		}
	case "C13":
		if part == "lines" {
			return genC13Lines(seed)
		}
		if part == "err" {
			// writers that keep writing across a render error: nothing is written after
			// the failed cycle, so no Write that starts after it may report success
			sc := genC15(seed, "filler")
			sc.Fam = "C13/err"
			r := common.NewRng(seed ^ 0x1313)
			seq := 5000
			for w := 0; w < r.Range(1, 3); w++ {
				var ops []Op
				for k := 0; k < r.Range(20, 60); k++ {
					seq++
					ops = append(ops, Op{K: "write", S: fmt.Sprintf("~e%d:%d:x~\n", w, seq)})
					if r.Chance(1, 3) {
						ops = append(ops, Op{K: "sleep", N: int64(r.Pick(10, 50, 200))})
					} else {
						ops = append(ops, Op{K: "yield", N: int64(r.Intn(3))})
					}
				}
				sc.Clients = append(sc.Clients, ops)
			}
			return sc
		}
		pf.modes = []string{"auto", "auto", "manual"}
		pf.writeP = 100
		pf.nBars = []int{0, 1, 2, 3, 5}
		pf.maxClients = 8
		pf.maxOps = 16
		pf.endKinds = []string{"natural", "natural", "cancel"}
		pf.extP = 0
		pf.delayP = 10
	}
	sc := genMixed(seed, prop+"/"+part, pf)
	if prop == "C13" {
		c13Boost(sc, common.NewRng(seed^0x13))
	}
	if prop == "C03" && sc.End != "natural" && len(sc.Bars) > 0 {
		// busy bars at the moment of cancellation: workers that keep a bar's
		// goroutine occupied (increments of 0 change nothing) and are not joined
		// before the cancel; a bar that serves the final render before it notices
		// the cancellation would be drawn as running
		r := common.NewRng(seed ^ 0x03)
		for w := 0; w < r.Range(1, 4); w++ {
			bi := r.Intn(len(sc.Bars))
			if sc.Bars[bi].AddBy != -1 {
				continue
			}
			sc.Waiters = append(sc.Waiters, []Op{{K: "busy", B: bi}})
			// a slow ticker, so that the frame rendered on cancellation is the last one
			if r.Bool() {
				sc.RefreshUS = r.Pick(10000, 30000)
			}
		}
		if len(sc.Waiters) > 0 && r.Chance(2, 3) {
			// ... and the bar's goroutine is held back after every operation it serves:
			// when it comes back, the cancellation and the final render request are both
			// waiting for it
			sc.Policy, sc.Target = "targeted", "bar.op"
		}
	}
	if prop == "C14" && len(sc.Bars) > 0 {
		// observers parked in Bar.Wait when the cancellation lands
		r := common.NewRng(seed ^ 0x14)
		for w := 0; w < r.Range(0, 3); w++ {
			var ops []Op
			for k := 0; k < r.Range(1, 3); k++ {
				bi := r.Intn(len(sc.Bars))
				if sc.Bars[bi].AddBy == -1 {
					ops = append(ops, Op{K: "barwaitget", B: bi})
					// many listeners stretch the bar's exit path (one goroutine is started per listener)
					if r.Bool() && len(sc.Bars[bi].App) < 20 {
						for x := 0; x < 30; x++ {
							sc.Bars[bi].App = append(sc.Bars[bi].App, DecSpec{Kind: "listener", Vary: r.Intn(2)})
						}
						if sc.Width < 400 {
							sc.Width = 400
						}
					}
				}
			}
			if len(ops) > 0 {
				sc.Waiters = append(sc.Waiters, ops)
			}
		}
	}
	return sc
}

// c13Boost adds writers that keep writing from the moment Wait is called until
// well after it returned, multi-line and long texts.
func c13Boost(sc *Scenario, r *common.Rng) {
	if len(sc.Clients) == 0 {
		sc.Clients = append(sc.Clients, nil)
	}
	seq := 1000
	for ci := range sc.Clients {
		n := r.Range(2, 10)
		for k := 0; k < n; k++ {
			seq++
			lines := r.Range(1, 3)
			var sb strings.Builder
			for l := 0; l < lines; l++ {
				w := r.Pick(1, 10, 60, 300, 3000)
				if sc.Width < w+20 {
					w = sc.Width - 20
				}
				fmt.Fprintf(&sb, "~w%d:%d.%d:%s~\n", ci, seq, l, strings.Repeat("z", r.Intn(w+1)))
			}
			at := r.Intn(len(sc.Clients[ci]) + 1)
			ops := append([]Op(nil), sc.Clients[ci][:at]...)
			ops = append(ops, Op{K: "write", S: sb.String()})
			sc.Clients[ci] = append(ops, sc.Clients[ci][at:]...)
		}
	}
	if sc.Mode != "pty" && r.Chance(1, 4) {
		// big writes: one Write of 40-150 KiB in many lines (a log dumped in one go)
		ci := r.Intn(len(sc.Clients))
		for k := 0; k < r.Range(1, 2); k++ {
			seq++
			var sb strings.Builder
			w := r.Pick(200, 1000, 2500)
			if sc.Width < w+30 {
				w = sc.Width - 30
			}
			if w < 1 {
				w = 1
			}
			for l := 0; sb.Len() < r.Pick(40000, 70000, 150000); l++ {
				fmt.Fprintf(&sb, "~B%d:%d.%d:%s~\n", ci, seq, l, strings.Repeat("y", w))
			}
			at := r.Intn(len(sc.Clients[ci]) + 1)
			ops := append([]Op(nil), sc.Clients[ci][:at]...)
			ops = append(ops, Op{K: "write", S: sb.String()})
			sc.Clients[ci] = append(ops, sc.Clients[ci][at:]...)
		}
	}
	if r.Chance(1, 2) && len(sc.Bars) > 0 && sc.End == "natural" && !sc.WaitEarly {
		// a late writer: keeps writing while Wait runs and after it returned
		var ops []Op
		for k := 0; k < 30; k++ {
			seq++
			ops = append(ops, Op{K: "write", S: fmt.Sprintf("~late:%d:x~\n", seq)}, Op{K: "yield", N: int64(r.Intn(3))})
		}
		sc.Clients = append(sc.Clients, ops)
		sc.WaitEarly = true
		// every bar must then be finished by the director before Wait: natural finisher does that
		for i := range sc.Bars {
			sc.Bars[i].AddBy = -1
		}
		for ci := range sc.Clients[:len(sc.Clients)-1] {
			var keep []Op
			for _, o := range sc.Clients[ci] {
				if o.K != "add" {
					keep = append(keep, o)
				}
			}
			sc.Clients[ci] = keep
		}
	}
}

func oracleFor(prop string, a *analysis) verdict {
	switch prop {
	case "C10":
		if raceMode {
			return a.oracleC10Race()
		}
		return a.oracleC10()
	case "C01":
		return a.oracleC01()
	case "C02":
		return a.oracleC02()
	case "C03":
		return a.oracleC03()
	case "C05":
		return a.oracleC05()
	case "C13":
		return a.oracleC13()
	case "C14":
		return a.oracleC14()
	case "C16":
		return a.oracleC16()
	case "C04":
		return a.oracleC04()
	case "C06":
		return a.oracleC06()
	case "C11":
		return a.oracleC11()
	case "C12":
		return a.oracleC12()
	case "C15":
		return a.oracleC15()
	case "C17":
		return a.oracleC17()
	case "C18":
		return a.oracleC18()
	}
	return inconclusive("no oracle")
}

func runSched(job common.Job, em *emitter) {
	watchdog := 30 * time.Second
	g0 := runtime.NumGoroutine()
	if job.Prop == "C16" && job.Replay == "" {
		// creating, using and waiting on containers repeatedly must not accumulate goroutines
		defer func() {
			for i := 0; i < 400 && runtime.NumGoroutine() > g0; i++ {
				time.Sleep(5 * time.Millisecond)
			}
			if n := runtime.NumGoroutine(); n > g0 {
				res := common.Result{Idx: job.To - 1, Prop: "C16", Status: common.Violated, Evals: 1, NonTrivial: 1,
					Key: "goroutine-growth", Msg: fmt.Sprintf("%d goroutines before the first of %d containers, %d two seconds after the last one returned from Wait", g0, job.To-job.From, n),
					Witness: stuck.Dump()}
				em.Res(res)
			}
		}()
	}
	if job.Part == "big" {
		watchdog = 120 * time.Second
	}
	for idx := job.From; idx < job.To; idx++ {
		var sc *Scenario
		if job.Replay != "" {
			var rc struct {
				Replay struct {
					Scenario *Scenario `json:"scenario"`
				} `json:"replay"`
			}
			readReplay(job.Replay, &rc)
			sc = rc.Replay.Scenario
			if sc == nil {
				fmt.Fprintln(os.Stderr, "HARNESS replay file has no scenario")
				os.Exit(2)
			}
		} else {
			sc = genFor(job.Prop, job.Part, common.H(job.Seed, job.Prop, job.Part, idx))
		}
		em.Begin(idx, sc)
		rr, restart := runScenario(sc, watchdog)
		a := analyse(rr)
		v := oracleFor(job.Prop, a)
		if os.Getenv("VERIF_DEBUG") != "" {
			fmt.Fprintf(os.Stderr, "DEBUG verdict=%s msg=%s\npostWait=%+v\nnotif=%v leak=%q stuck=%s\n%s\n", v.Status, v.Msg, rr.postWait, rr.notif, rr.leak, rr.stuckKind, a.tail())
		}
		res := common.Result{Idx: idx, Prop: job.Prop, Status: v.Status, Evals: 1, Msg: v.Msg, Key: v.Key, Obs: map[string]int64{}}
		if v.NonTrivial {
			res.NonTrivial = 1
			res.Sigs = []string{a.signature()}
			if raceMode {
				res.Sigs = []string{common.Hs(fmt.Sprint(sc.Seed))}
			}
		}
		if v.Status == common.Violated {
			res.Replay = mustJSON(map[string]interface{}{"scenario": sc})
			w := v.Witness
			if len(w) > 60000 {
				w = w[:60000]
			}
			res.Witness = w
		}
		if v.Status == common.Inconclusive {
			res.Replay = mustJSON(map[string]interface{}{"scenario": sc})
			res.Witness = v.Witness[:minInt(len(v.Witness), 60000)]
		}
		for k, n := range a.obs {
			res.Obs["oracle:"+k] += n
		}
		res.Obs["frames"] = int64(len(a.frames))
		res.Obs["client_ops"] = int64(len(rr.hist))
		res.Obs["delays_applied"] = rr.delaysN.Load()
		if rr.trigFired.Load() {
			res.Obs["triggers_fired"] = 1
			res.Obs[fmt.Sprintf("site:%s@%s#%d", sc.Trig.Action, sc.Trig.Point, sc.Trig.Occ)]++
		} else if sc.Trig != nil {
			res.Obs["triggers_not_reached"]++
		}
		if a.errCycle {
			k := 0
			for _, b := range sc.Bars {
				if b.FailAt > 0 {
					k = b.FailAt
				}
				if b.ExtFailAt > 0 {
					k = b.ExtFailAt
				}
			}
			if sc.OutFailAt > 0 {
				k = sc.OutFailAt
			}
			if k == failLate {
				res.Obs[fmt.Sprintf("site:fault:%s#first-frame-on-the-way-out", a.faultSite())]++
			} else {
				res.Obs[fmt.Sprintf("site:fault:%s#%d", a.faultSite(), k)]++
			}
		}
		for pi := 0; pi < hpCount; pi++ {
			if n := rr.hookOcc[pi].Load(); n > 0 {
				res.Obs["hook:"+hookPoints[pi]] = n
			}
		}
		if idx%97 == 0 || v.Status != common.Held {
			res.Sample = mustJSON(map[string]interface{}{"scenario": sc, "verdict": v.Status, "frames": len(a.frames), "ops": len(rr.hist), "delays": rr.delaysN.Load(), "last_frame": lastFrameText(a)})
		}
		em.Res(res)
		if restart {
			os.Exit(7)
		}
	}
}

func lastFrameText(a *analysis) string {
	if len(a.frames) == 0 {
		return ""
	}
	s := stripSGR(string(a.frames[len(a.frames)-1].Raw))
	if len(s) > 1500 {
		s = s[:1500]
	}
	return s
}

// genC05Queue: a large heap whose re-population after a cycle takes a while, and
// bars queued behind a bar that keeps running, each added right after a frame.
func genC05Queue(seed uint64) *Scenario {
	r := common.NewRng(seed)
	sc := &Scenario{Fam: "C05/queue", Seed: seed, Q: r.Pick(-1, -1, 0, 4), Width: 200, End: "natural", Policy: r.PickS("none", "light"), Mode: r.PickS("auto", "manual"), RefreshUS: r.Pick(100, 500)}
	n := r.Pick(20, 60, 120)
	for i := 0; i < n; i++ {
		b := simpleBar(100)
		b.Filler = "nop"
		sc.Bars = append(sc.Bars, b)
	}
	var ops []Op
	step := func() Op {
		if sc.Mode == "manual" {
			return Op{K: "rw"}
		}
		return Op{K: "waitcycles", N: 1}
	}
	for k := 0; k < r.Range(10, 40); k++ {
		b := simpleBar(10)
		b.Filler = "nop"
		b.After = r.Pick(0, 0, r.Intn(n))
		b.AddBy = 0
		sc.Bars = append(sc.Bars, b)
		ops = append(ops, step(), Op{K: "add", B: len(sc.Bars) - 1})
		if r.Chance(1, 4) {
			ops = append(ops, Op{K: "incr", B: r.Intn(n), N: 1})
		}
	}
	ops = append(ops, step(), step())
	sc.Clients = [][]Op{ops}
	if sc.Mode == "manual" {
		sc.FinalRefr = 3
	}
	return sc
}

// genSwap: bars with width-synchronised decorators, one of which leaves the heap
// (removed on completion, dropped on abort, popped out) while, before the next
// cycle, a bar WITHOUT synchronised decorators joins: the number of bars is the
// same as before, the synchronised columns are not.
func genSwap(seed uint64, fam string) *Scenario {
	r := common.NewRng(seed)
	sc := &Scenario{Fam: fam, Seed: seed, Q: -1, Width: 200, End: "natural", Policy: r.PickS("none", "light"), Mode: r.PickS("manual", "manual", "auto"), RefreshUS: r.Pick(200, 1000)}
	sc.Pop = r.Chance(1, 4)
	g := &gen{r: r, sc: sc}
	n := r.Range(2, 5)
	for i := 0; i < n; i++ {
		b := simpleBar(int64(r.Pick(5, 100)))
		b.Filler = r.PickS("nop", "bar")
		b.Pre = []DecSpec{{Kind: "sync", Vary: r.Range(1, 6), W: r.Pick(0, 0, 4)}}
		if r.Bool() {
			b.App = []DecSpec{{Kind: "sync", Vary: r.Range(1, 6), C: r.Intn(4)}}
		}
		sc.Bars = append(sc.Bars, b)
	}
	step := func() Op {
		if sc.Mode == "manual" {
			return Op{K: "rw"}
		}
		return Op{K: "waitcycles", N: 1}
	}
	ops := []Op{step()}
	leavers := r.Perm(n)[:r.Range(1, n-1)]
	for _, li := range leavers {
		if !sc.Pop {
			if r.Bool() {
				sc.Bars[li].Rm = true
			} else {
				sc.Bars[li].Finish = "abortdrop"
			}
		}
		ops = append(ops, g.finishOp(li, sc.Bars[li])...)
		// first terminal frame, the frame it leaves with (one more in pop mode), sometimes one more
		for x := 0; x < r.Pick(1, 2, 2, 3, 3, 4); x++ {
			ops = append(ops, step())
		}
		nb := simpleBar(int64(r.Pick(5, 100)))
		nb.Filler = "nop"
		nb.AddBy = 0
		if r.Chance(1, 4) {
			nb.App = []DecSpec{{Kind: "plain", Vary: 2}}
		}
		sc.Bars = append(sc.Bars, nb)
		ops = append(ops, Op{K: "add", B: len(sc.Bars) - 1}, step(), step())
	}
	ops = append(ops, step())
	sc.Clients = [][]Op{ops}
	if sc.Mode == "manual" {
		sc.FinalRefr = 3
	}
	return sc
}

// genC13Lines: a sequential manual-refresh program (nothing but its own refreshes
// can start a render cycle): texts handed over in two pieces that do not end at a
// line boundary, and the very same line written once per cycle above rows that do
// not change (byte-identical frames).
func genC13Lines(seed uint64) *Scenario {
	r := common.NewRng(seed)
	sc := &Scenario{Fam: "C13/lines", Seed: seed, Q: -1, Width: 120, End: "natural", Policy: r.PickS("none", "light"), Mode: "manual", NoK: true}
	n := r.Range(0, 3)
	for i := 0; i < n; i++ {
		b := simpleBar(int64(r.Pick(10, 100)))
		b.Filler = r.PickS("nop", "bar")
		sc.Bars = append(sc.Bars, b)
	}
	var ops []Op
	seq := 0
	for k := 0; k < r.Range(2, 8); k++ {
		for j := 0; j < r.Range(1, 3); j++ {
			line := fmt.Sprintf("~s0:%d:%s~\n", seq, strings.Repeat("q", r.Range(1, 30)))
			seq++
			if r.Chance(1, 3) {
				line += fmt.Sprintf("~s0:%d:second~\n", seq)
				seq++
			}
			op := Op{K: "write", S: line}
			if r.Chance(2, 3) {
				op.N = int64(r.Range(1, len(line)-1)) // split point
			}
			ops = append(ops, op)
		}
		ops = append(ops, Op{K: "rw"})
		if n > 0 && r.Chance(1, 3) {
			ops = append(ops, Op{K: "incr", B: r.Intn(n), N: 1}, Op{K: "rw"})
		}
	}
	// heartbeat: the same bytes every cycle, nothing else changes
	hb := fmt.Sprintf("~s0:hb:%d~\n", r.Intn(10))
	for k := 0; k < r.Range(2, 9); k++ {
		ops = append(ops, Op{K: "write", S: hb}, Op{K: "rw"})
	}
	ops = append(ops, Op{K: "rw"})
	sc.Clients = [][]Op{ops}
	sc.FinalRefr = 2
	return sc
}

// genC02Waiters: several goroutines parked in Progress.Wait while bars with
// many shutdown-listener decorators finish (the wait group is waited on by
// several callers and used by the bars' exit paths at the same time).
func genC02Waiters(seed uint64) *Scenario {
	r := common.NewRng(seed)
	sc := &Scenario{Fam: "C02/waiters", Seed: seed, Q: -1, Width: 600, End: "natural", Policy: r.PickS("none", "light"), Mode: r.PickS("auto", "manual", "none"), RefreshUS: r.Pick(100, 1000), Late: true}
	n := r.Range(1, 4)
	for i := 0; i < n; i++ {
		b := simpleBar(int64(r.Pick(1, 5, 100)))
		b.Filler = "nop"
		for k := 0; k < r.Pick(4, 12, 30); k++ {
			b.App = append(b.App, DecSpec{Kind: "listener", Vary: r.Intn(2), Wrap: r.PickS("", "", "oncomplete", "meta")})
		}
		b.Finish = r.PickS("complete", "abort")
		sc.Bars = append(sc.Bars, b)
	}
	for w := 0; w < r.Range(2, 6); w++ {
		sc.Waiters = append(sc.Waiters, []Op{{K: "pwait"}})
	}
	var ops []Op
	for k := 0; k < r.Range(0, 6); k++ {
		ops = append(ops, Op{K: "incr", B: r.Intn(n), N: 1})
	}
	sc.Clients = [][]Op{ops}
	if r.Chance(1, 3) {
		sc.End = r.PickS("cancel", "shutdown")
	}
	return sc
}
