package main

// Executes one Scenario against the real library and records the run:
// client-boundary history, output events, hook events, side channels.

import (
	"bytes"
	"context"
	"errors"
	"fmt"
	"io"
	"os"
	"runtime"
	"sort"
	"strings"
	"sync"
	"sync/atomic"
	"time"

	mpb "github.com/vbauerster/mpb/v8"
	"github.com/vbauerster/mpb/v8/decor"
	"golang.org/x/sys/unix"

	"verif/harness/internal/common"
	"verif/harness/internal/stuck"
)

type OpRec struct {
	Client  int    `json:"c"`
	Idx     int    `json:"i"`
	Op      Op     `json:"op"`
	Inv     int64  `json:"inv"`
	Ret     int64  `json:"ret"` // 0 = never returned
	Res     string `json:"res,omitempty"`
	Skipped bool   `json:"skipped,omitempty"`
}

type OutRec struct {
	T0, T1 int64
	B      []byte
	Failed bool
}

type HookRec struct {
	T    int64
	P    int
	Bar  int
	A, B int
	ptr  *mpb.Bar // set while Bar is not known yet (see resolveHooks)
}

type getterSnap struct {
	Cur         int64
	Compl, Abrt bool
	Running     bool
	ID          int
}

type runRec struct {
	sc *Scenario

	mu    sync.Mutex
	hist  []OpRec
	outs  []OutRec
	hooks []HookRec
	debug bytes.Buffer
	notes []string

	barsMu    sync.RWMutex
	bars      []*mpb.Bar
	ptr2ix    sync.Map // *mpb.Bar -> spec index
	addFailed []atomic.Bool

	listenerCalls  [][]int32 // [bar][listener ordinal]
	listenerAtWait [][]int32 // the same counters read the moment Progress.Wait returned
	wcMu           sync.Mutex
	wcTemplates    map[[2]int]decor.WC
	listenerN      []int
	renderK        []int64 // per bar render counter (marker)

	p              *mpb.Progress
	cancel         context.CancelFunc
	manualCh       chan interface{}
	delayCh        chan struct{}
	notifCh        chan interface{}
	uwg            *sync.WaitGroup
	quit           chan struct{} // closed when the scenario is over (releases harness-side selects)
	cancelled      atomic.Bool
	pty            *ptyPair
	mem            *memWriter
	hookOcc        [hpCount]atomic.Int64
	trigFired      atomic.Bool
	refreshDead    atomic.Bool
	faultsReturned atomic.Int64
	dead           atomic.Bool
	trigMatch      atomic.Int64
	perturbN       atomic.Int64
	delaysN        atomic.Int64

	// phases (logical clock values, 0 = not reached)
	tWaitInv, tWaitRet atomic.Int64
	tAllTerminal       atomic.Int64
	cyclesAtTerminal   atomic.Int64
	finished           atomic.Bool

	// results
	notif       [][]int // bar indices per notifier receive
	notifExtra  int
	postWait    []getterSnap
	lateMsgs    []string
	leak        string
	stuckDump   string
	stuckSig    string
	stuckKind   string // "" | deadlock | livelock | watchdog
	wallStart   time.Time
	goroutines0 int
}

// ---------------------------------------------------------------- recording

func (rr *runRec) note(format string, a ...interface{}) {
	rr.mu.Lock()
	rr.notes = append(rr.notes, fmt.Sprintf(format, a...))
	rr.mu.Unlock()
}

func (rr *runRec) bar(i int) *mpb.Bar {
	rr.barsMu.RLock()
	defer rr.barsMu.RUnlock()
	if i < 0 || i >= len(rr.bars) {
		return nil
	}
	return rr.bars[i]
}

func (rr *runRec) setBar(i int, b *mpb.Bar) {
	rr.barsMu.Lock()
	rr.bars[i] = b
	rr.barsMu.Unlock()
	if b != nil {
		rr.ptr2ix.Store(b, i)
	}
}

// waitBar polls until bar i exists (harness-side wait: polling sleep with give-up).
func (rr *runRec) waitBar(i int) *mpb.Bar {
	for k := 0; k < 4000; k++ {
		if b := rr.bar(i); b != nil {
			return b
		}
		if rr.finished.Load() || rr.addFailed[i].Load() {
			return nil
		}
		if rr.cancelled.Load() && k > 20 {
			return nil // after cancellation the bar may never come
		}
		time.Sleep(500 * time.Microsecond)
	}
	return nil
}

type memWriter struct {
	rr     *runRec
	n      int
	failAt int
}

var errOut = errors.New("scripted output failure")

func (w *memWriter) Write(p []byte) (int, error) {
	rr := w.rr
	if raceMode {
		w.n++ // only ever called from the container goroutine
		if w.failAt > 0 && w.n >= w.failAt {
			return 0, errOut
		}
		return len(p), nil
	}
	t0 := tick()
	rr.mu.Lock()
	w.n++
	fail := w.failAt > 0 && w.n >= w.failAt
	rec := OutRec{T0: t0, B: append([]byte(nil), p...), Failed: fail}
	rr.outs = append(rr.outs, rec)
	ix := len(rr.outs) - 1
	rr.mu.Unlock()
	t1 := tick()
	rr.mu.Lock()
	rr.outs[ix].T1 = t1
	rr.mu.Unlock()
	if fail {
		if rr.sc.Seed%3 == 0 && len(p) > 1 {
			return len(p) / 2, errOut // a partial write that then fails (disk full, peer gone)
		}
		if rr.sc.Seed%3 == 1 {
			// the error value io.MultiWriter and friends return; as much an output error as any other (C15-m13)
			return len(p) / 2, io.ErrShortWrite
		}
		return 0, errOut
	}
	return len(p), nil
}

type lockedBuf struct {
	rr *runRec
}

func (l lockedBuf) Write(p []byte) (int, error) {
	if raceMode {
		return len(p), nil
	}
	tick()
	l.rr.mu.Lock()
	l.rr.debug.Write(p)
	l.rr.mu.Unlock()
	return len(p), nil
}

// ---------------------------------------------------------------- hooks

func (rr *runRec) hook(pi int, bar *mpb.Bar, a, b int) {
	t := tick()
	bi := -1
	if bar != nil {
		if pi == hpAdd && a >= 0 && a < len(rr.sc.Bars) && rr.sc.Bars[a].DupID == 0 {
			// the harness gives a bar its own index as id ...
			bi = a
			rr.ptr2ix.Store(bar, a)
		} else if v, ok := rr.ptr2ix.Load(bar); ok {
			bi = v.(int)
		}
		// ... unless the scenario gives several bars one user-chosen id: those are only
		// known once Add has handed the bar to its caller (addBar); events of such a bar
		// recorded before that carry the pointer and are resolved by resolveHooks.
	}
	var unresolved *mpb.Bar
	if bar != nil && bi < 0 {
		unresolved = bar
	}
	occ := rr.hookOcc[pi].Add(1)
	if pi == hpServeDone || pi == hpRenderEnd && b != 0 {
		rr.dead.Store(true) // no further render cycle will come
	}
	if rr.pty != nil {
		switch pi {
		case hpRenderBegin:
			rr.pty.expectRows.Store(0)
			rr.pty.expectBytes.Store(false)
		case hpFlushWrite:
			rr.pty.expectRows.Store(int64(a))
			rr.pty.expectBytes.Store(a > 0)
		case hpRenderEnd:
			rr.pty.cut()
		}
	}
	if pi != hpBarOp { // one per operation served by a bar: counted and used as a delay point, not logged
		rr.mu.Lock()
		rr.hooks = append(rr.hooks, HookRec{T: t, P: pi, Bar: bi, A: a, B: b, ptr: unresolved})
		rr.mu.Unlock()
	}

	sc := rr.sc
	// trigger
	if tr := sc.Trig; tr != nil && !rr.trigFired.Load() && hookPoints[pi] == tr.Point {
		match := (tr.A < 0 || tr.A == a) && (tr.Bar < 0 || tr.Bar == bi)
		if match {
			// count matching occurrences separately
			if rr.trigMatch.Add(1) == int64(tr.Occ) && rr.trigFired.CompareAndSwap(false, true) {
				rr.fireTrigger(tr)
			}
		}
	}
	// perturbation: decided by H(seed, point, occurrence), so the decision is replayable
	if sc.Policy == "none" || sc.Policy == "" {
		return
	}
	h := common.H(sc.Seed, "perturb", pi, int(occ))
	var yields int
	var sleep time.Duration
	switch {
	case sc.Policy == "targeted" && hookPoints[pi] == sc.Target:
		sleep = time.Duration(20+h%2000) * time.Microsecond
		if pi == hpBarOp {
			sleep = time.Duration(10+h%200) * time.Microsecond // fires once per client operation
		}
	case sc.Policy == "heavy":
		switch x := h % 100; {
		case x < 30:
			yields = 1 + int(h>>8)%4
		case x < 40:
			sleep = time.Duration(5+(h>>8)%1500) * time.Microsecond
		}
	default: // light, and the non-targeted points of targeted
		switch x := h % 100; {
		case x < 10:
			yields = 1 + int(h>>8)%3
		case x < 12:
			sleep = time.Duration(5+(h>>8)%100) * time.Microsecond
		}
	}
	if yields > 0 || sleep > 0 {
		rr.delaysN.Add(1)
	}
	for i := 0; i < yields; i++ {
		runtime.Gosched()
	}
	if sleep > 0 {
		time.Sleep(sleep)
	}
}

func (rr *runRec) fireTrigger(tr *Trigger) {
	tick()
	switch tr.Action {
	case "cancel":
		rr.cancelled.Store(true)
		rr.cancel()
	case "shutdown":
		rr.cancelled.Store(true)
		go rr.p.Shutdown()
		time.Sleep(300 * time.Microsecond)
	case "ttyfail":
		if rr.pty != nil {
			rr.pty.breakTTY()
		}
	}
}

// runningAfterStop: right after the cancellation / Shutdown call has returned
// every bar has stopped: IsRunning is false at once (a bar's context is derived
// from the container's), whether or not its goroutine was scheduled since.
func (rr *runRec) runningAfterStop() string {
	n, running := 0, 0
	first := -1
	for i := range rr.sc.Bars {
		if b := rr.bar(i); b != nil {
			n++
			if b.IsRunning() {
				running++
				if first < 0 {
					first = i
				}
			}
		}
	}
	return fmt.Sprintf("stopped:%d/%d/%d", running, n, first)
}

// ---------------------------------------------------------------- decorators

type listenerDec struct {
	decor.WC
	rr   *runRec
	bar  int
	ord  int
	text string
}

func (l *listenerDec) Decor(decor.Statistics) (string, int) { return l.Format(l.text) }
func (l *listenerDec) OnShutdown() {
	tick()
	if l.ord%3 == 1 {
		time.Sleep(time.Duration(200+l.ord*300) * time.Microsecond) // a listener that takes its time (flushing a log, say)
	}
	if l.ord%2 == 0 {
		// a listener may look at its own bar (e.g. to log the final count): the
		// getters are documented to work while a bar shuts down and afterwards
		if b := l.rr.bar(l.bar); b != nil {
			_ = b.Current()
			_ = b.Aborted()
			_ = b.Completed()
			_ = b.IsRunning()
			_ = b.ID()
		}
	}
	atomic.AddInt32(&l.rr.listenerCalls[l.bar][l.ord], 1)
}

// listenerEwmaDec: a shutdown listener that is also a moving-average decorator.
type listenerEwmaDec struct {
	listenerDec
	n atomic.Int64
}

func (l *listenerEwmaDec) EwmaUpdate(n int64, d time.Duration) { l.n.Add(n) }

type ewmaDec struct {
	decor.WC
	n atomic.Int64
}

func (e *ewmaDec) Decor(decor.Statistics) (string, int) { return e.Format("(e)") }
func (e *ewmaDec) EwmaUpdate(n int64, d time.Duration)  { e.n.Add(n) }

func sgrWrap(s string) string  { return "\x1b[32m" + s + "\x1b[0m" }
func metaDone(s string) string { return "\x1b[35m" + s + "\x1b[0m" }
func metaAbrt(s string) string { return "\x1b[36m" + s + "\x1b[0m" }

func slowDown(slow int) {
	if slow > 0 {
		time.Sleep(time.Duration(slow) * time.Microsecond)
	} else if slow < 0 {
		for i := 0; i < -slow; i++ {
			runtime.Gosched()
		}
	}
}

func (rr *runRec) buildDec(bi int, side string, ord int, d DecSpec) decor.Decorator {
	wc := decor.WC{W: d.W, C: d.C & 3}
	if d.Sync {
		wc.C |= decor.DSyncWidth
	}
	if d.Kind == "sync" {
		wc.C |= decor.DSyncWidth
	}
	if rr.sc.Seed%4 == 1 {
		// a caller who keeps one initialised WC per configuration and hands (copies
		// of) it to several constructors: every decorator still gets a column of its own
		key := [2]int{wc.W, wc.C}
		rr.wcMu.Lock()
		if rr.wcTemplates == nil {
			rr.wcTemplates = map[[2]int]decor.WC{}
		}
		t, ok := rr.wcTemplates[key]
		if !ok {
			t = wc
			t.Init()
			rr.wcTemplates[key] = t
		}
		rr.wcMu.Unlock()
		wc = t
	}
	var x decor.Decorator
	var calls int64
	switch d.Kind {
	case "sync":
		wc.C |= decor.DSyncWidth
		x = decor.Any(func(s decor.Statistics) string {
			slowDown(d.Slow)
			calls++
			n := 0
			if d.Vary > 0 {
				n = int((s.Current + calls*3) % int64(d.Vary+1))
			}
			glyph := "x"
			switch d.Glyph {
			case 1:
				glyph = "\u4e16" // two columns, one rune
			case 2:
				glyph = "e\u0301" // one column, two runes
			}
			return fmt.Sprintf("{%s%d:%s}", side, ord, strings.Repeat(glyph, n))
		}, wc)
	case "pct":
		x = decor.NewPercentage("(%d)", wc)
	case "counters":
		x = decor.CountersNoUnit("(%d/%d)", wc)
	case "kib":
		x = decor.CountersKibiByte("(% .1f/% .1f)", wc)
	case "kb":
		x = decor.CountersKiloByte("(%.2f/%.2f)", wc)
	case "speedkib":
		x = decor.AverageSpeed(decor.SizeB1024(0), "(% .1f)", wc)
	case "name":
		x = decor.Name(fmt.Sprintf("(n%d)", bi), wc)
	case "listener":
		l := &listenerDec{WC: wc, rr: rr, bar: bi, ord: rr.listenerN[bi], text: fmt.Sprintf("(L%d)", rr.listenerN[bi])}
		l.WC.Init()
		rr.listenerN[bi]++
		rr.listenerCalls[bi] = append(rr.listenerCalls[bi], 0)
		x = l
		if d.Vary&1 == 1 {
			x = &listenerEwmaDec{listenerDec: *l}
		}
	case "ewma":
		e := &ewmaDec{WC: wc}
		e.WC.Init()
		x = e
	case "elapsed":
		x = decor.Elapsed(decor.ET_STYLE_MMSS, wc)
	case "avgeta":
		x = decor.AverageETA(decor.ET_STYLE_GO, wc)
	case "avgspeed":
		x = decor.AverageSpeed(0, "(%.1f)", wc)
	case "ewmaeta":
		x = decor.EwmaETA(decor.ET_STYLE_GO, float64(d.W*10), wc) // ages 0 (the default), 30, 80
	case "ewmaspeed":
		x = decor.EwmaSpeed(0, "(%.1f)", float64(d.W*10), wc)
	case "spindec":
		x = decor.Spinner([]string{"(-)", "(+)", "(|)", "(*)"}, wc)
	case "emptyname":
		x = decor.Name("", wc)
	default: // plain
		x = decor.Any(func(s decor.Statistics) string {
			slowDown(d.Slow)
			return fmt.Sprintf("(%s%d)", side, ord)
		}, wc)
	}
	depth := d.Depth
	if depth < 1 {
		depth = 1
	}
	for i := 0; i < depth; i++ {
		switch d.Wrap {
		case "oncomplete":
			x = decor.OnComplete(x, "(DONE)")
		case "onabort":
			x = decor.OnAbort(x, "(ABRT)")
		case "oncompleteE":
			x = decor.OnComplete(x, "")
		case "onabortE":
			x = decor.OnAbort(x, "")
		case "both":
			x = decor.OnCompleteOrOnAbort(x, "(FIN)")
		case "meta":
			x = decor.Meta(x, sgrWrap)
		case "deep":
			x = decor.OnComplete(decor.Meta(decor.OnAbort(x, "(ABRT)"), sgrWrap), "(DONE)")
		}
	}
	return x
}

type failingFiller struct {
	base   mpb.BarFiller
	n      int
	failAt int
	kind   int
	rr     *runRec
}

var errFill = errors.New("scripted filler failure")

// scriptedErr: the error value a failing filler / extender returns.
func scriptedErr(kind int) error {
	switch kind {
	case 1:
		return io.EOF
	case 2:
		return io.ErrUnexpectedEOF
	}
	return errFill
}

// failLate as the call number: the filler starts failing with the first frame the
// container renders on its way out (after its done branch was entered), e.g. an
// output that goes away only after the work is finished.
const failLate = 1 << 30

func (f *failingFiller) Fill(w io.Writer, st decor.Statistics) error {
	f.n++
	if f.failAt == failLate {
		if f.rr != nil && f.rr.hookOcc[hpServeDone].Load() > 0 {
			f.rr.faultsReturned.Add(1)
			return scriptedErr(f.kind)
		}
		return f.base.Fill(w, st)
	}
	if f.failAt > 0 && f.n >= f.failAt {
		if f.rr != nil {
			f.rr.faultsReturned.Add(1)
		}
		return scriptedErr(f.kind)
	}
	return f.base.Fill(w, st)
}

func (rr *runRec) barOptions(bi int) (mpb.BarFiller, []mpb.BarOption) {
	spec := rr.sc.Bars[bi]
	marker := decor.Any(func(s decor.Statistics) string {
		var k int64
		if raceMode {
			rr.renderK[bi]++ // ordered by the library's own hand-overs; no harness atomics in the race tier
			k = rr.renderK[bi]
		} else {
			k = atomic.AddInt64(&rr.renderK[bi], 1)
		}
		if rr.sc.NoK {
			k = 0 // rows that do not change from frame to frame
		}
		wantID := bi
		if spec.DupID > 0 {
			wantID = 100000 + spec.DupID
		}
		if s.ID != wantID {
			return fmt.Sprintf("!statistics of bar %d carry id %d, the bar was created with id %d!", bi, s.ID, wantID)
		}
		return fmt.Sprintf("<%d|%d/%d|C%dA%d|%d>", bi, s.Current, s.Total, b2i(s.Completed), b2i(s.Aborted), k)
	})
	pre := []decor.Decorator{marker}
	for i, d := range spec.Pre {
		pre = append(pre, rr.buildDec(bi, "p", i, d))
	}
	var app []decor.Decorator
	for i, d := range spec.App {
		app = append(app, rr.buildDec(bi, "a", i, d))
	}
	if spec.OnDone {
		app = append(app, decor.OnAbort(decor.OnComplete(decor.Name("(run)"), "(DONE!)"), "(ABRT!)"))
		// meta decorations: colour only on completion / only on abort
		app = append(app, decor.OnAbortMeta(decor.OnCompleteMeta(decor.Name("(m)"), metaDone), metaAbrt))
	}
	id := bi
	if spec.DupID > 0 {
		id = 100000 + spec.DupID // an id the user chose, shared with another bar: ids need not be unique
	}
	opts := []mpb.BarOption{mpb.BarID(id), mpb.PrependDecorators(pre...), mpb.AppendDecorators(app...)}
	if spec.Prio != nil {
		opts = append(opts, mpb.BarPriority(*spec.Prio))
	}
	if spec.Rm {
		opts = append(opts, mpb.BarRemoveOnComplete())
	}
	if spec.NoPop {
		opts = append(opts, mpb.BarNoPop())
	}
	if spec.BarWidth != 0 {
		opts = append(opts, mpb.BarWidth(spec.BarWidth))
	}
	if spec.After >= 0 {
		if pb := rr.waitBar(spec.After); pb != nil {
			opts = append(opts, mpb.BarQueueAfter(pb))
		}
	}
	if spec.OnDone {
		opts = append(opts, mpb.BarFillerOnComplete("[complete]"), mpb.BarFillerOnAbort("[aborted]"))
	}
	if spec.Ext > 0 || spec.ExtFailAt > 0 {
		n, failAt, calls, kind, frag := spec.Ext, spec.ExtFailAt, 0, spec.ErrKind, spec.ExtFrag
		opts = append(opts, mpb.BarExtender(mpb.BarFillerFunc(func(w io.Writer, st decor.Statistics) error {
			calls++
			if failAt > 0 && calls >= failAt {
				rr.faultsReturned.Add(1)
				return scriptedErr(kind)
			}
			for j := 0; j < n; j++ {
				fmt.Fprintf(w, "<%d+%d>\n", bi, j)
			}
			if frag {
				fmt.Fprintf(w, "<%d+frag>", bi) // no newline: not a line, must not become a row
			}
			return nil
		}), spec.ExtRev))
	}
	var filler mpb.BarFiller
	switch spec.Filler {
	case "spinner":
		filler = mpb.SpinnerStyle("|", "/", "-").Build()
	case "nop":
		filler = nil
	case "nilfunc":
		filler = mpb.BarFillerFunc(nil) // a typed nil is as good as nil to Add
	default:
		filler = mpb.BarStyle().Build()
	}
	if spec.FailAt > 0 {
		base := filler
		if base == nil {
			base = mpb.NopStyle().Build()
		}
		filler = &failingFiller{base: base, failAt: spec.FailAt, kind: spec.ErrKind, rr: rr}
	}
	return filler, opts
}

// ---------------------------------------------------------------- client ops

func (rr *runRec) record(client, idx int, op Op) int {
	if raceMode {
		return -1
	}
	rr.mu.Lock()
	rr.hist = append(rr.hist, OpRec{Client: client, Idx: idx, Op: op})
	i := len(rr.hist) - 1
	rr.mu.Unlock()
	t := tick()
	rr.mu.Lock()
	rr.hist[i].Inv = t
	rr.mu.Unlock()
	return i
}

func (rr *runRec) finish(i int, res string, skipped bool) {
	if i < 0 {
		return
	}
	t := tick()
	rr.mu.Lock()
	rr.hist[i].Ret = t
	rr.hist[i].Res = res
	rr.hist[i].Skipped = skipped
	rr.mu.Unlock()
}

// refresh asks for a render through the user's manual-refresh channel. The
// listener on the other side stops listening once the container is cancelled,
// so (like any user of the option) the harness must not block on the send
// forever: it polls, and gives up when the scenario has initiated shutdown or
// after 200 ms without a taker. Returns whether the request was taken.
func (rr *runRec) refresh() bool {
	if rr.manualCh == nil {
		return false
	}
	limit := 200 * time.Millisecond
	if rr.refreshDead.Load() {
		limit = 5 * time.Millisecond // the listener did not take an earlier request: it is most likely gone
	}
	start := time.Now()
	for {
		select {
		case rr.manualCh <- time.Now():
			return true
		default:
		}
		if rr.cancelled.Load() || rr.tWaitRet.Load() != 0 || rr.finished.Load() || rr.dead.Load() {
			return false
		}
		if time.Since(start) > limit {
			rr.refreshDead.Store(true)
			return false
		}
		time.Sleep(50 * time.Microsecond)
	}
}

func (rr *runRec) addBar(bi int) string {
	spec := rr.sc.Bars[bi]
	filler, opts := rr.barOptions(bi)
	b, err := rr.p.Add(spec.Total, filler, opts...)
	if err != nil {
		rr.addFailed[bi].Store(true)
		if err == mpb.ErrDone {
			return "ErrDone"
		}
		return "err:" + err.Error()
	}
	if b == nil {
		rr.addFailed[bi].Store(true)
		return "nil"
	}
	rr.ptr2ix.Store(b, bi)
	rr.setBar(bi, b)
	return "ok"
}

// resolveHooks fills in the bar index of hook events that were recorded before the
// harness knew which of its bars the pointer belongs to (bars with a shared user-chosen id).
func (rr *runRec) resolveHooks() {
	rr.mu.Lock()
	defer rr.mu.Unlock()
	for i := range rr.hooks {
		if h := &rr.hooks[i]; h.ptr != nil && h.Bar < 0 {
			if v, ok := rr.ptr2ix.Load(h.ptr); ok {
				h.Bar = v.(int)
				h.ptr = nil
			}
		}
	}
}

func (rr *runRec) doOp(client, idx int, op Op) {
	switch op.K {
	case "sleep":
		time.Sleep(time.Duration(op.N) * time.Microsecond)
		return
	case "yield":
		for i := int64(0); i <= op.N; i++ {
			runtime.Gosched()
		}
		return
	}
	var b *mpb.Bar
	needsBar := true
	switch op.K {
	case "add", "write", "refresh", "rw", "cancel", "shutdown", "release", "waitcycles", "pwait", "resize":
		needsBar = false
	}
	if needsBar {
		b = rr.waitBar(op.B)
		if b == nil {
			i := rr.record(client, idx, op)
			rr.finish(i, "", true)
			return
		}
	}
	i := rr.record(client, idx, op)
	res := ""
	switch op.K {
	case "add":
		res = rr.addBar(op.B)
	case "resize":
		// the user resizes the terminal window: N rows, B columns
		res = "no-pty"
		if rr.pty != nil {
			if err := unix.IoctlSetWinsize(rr.pty.master, unix.TIOCSWINSZ, &unix.Winsize{Row: uint16(op.N), Col: uint16(op.B)}); err != nil {
				res = err.Error()
			} else {
				res = "ok"
			}
		}
	case "write":
		buf := []byte(op.S)
		var n int
		var err error
		if k := int(op.N); k > 0 && k < len(buf) {
			// one text handed over in two pieces that do not end at a line boundary
			// (fmt.Fprint followed by Fprintln, io.Copy from a pipe ...)
			n, err = rr.p.Write(buf[:k])
			if err == nil && n == k {
				var n2 int
				n2, err = rr.p.Write(buf[k:])
				n += n2
			}
		} else {
			n, err = rr.p.Write(buf)
		}
		// io.Writer's contract: the callee must not retain the slice. Reuse it at
		// once, as a caller with a scratch buffer would.
		for i := range buf {
			buf[i] = '#'
		}
		res = fmt.Sprintf("%d,%v", n, err)
		if err == mpb.ErrDone {
			res = fmt.Sprintf("%d,ErrDone", n)
		}
	case "refresh":
		if rr.refresh() {
			res = "taken"
		} else {
			res = "dropped"
		}
	case "rw":
		// refresh and wait until that render cycle is over (deterministic manual mode)
		n0 := hk.counts[hpRenderEnd].Load()
		if rr.refresh() {
			if raceMode {
				time.Sleep(300 * time.Microsecond)
				res = "taken"
			} else if waitCount(hpRenderEnd, n0+1, 2*time.Second) {
				res = "rendered"
			} else {
				res = "taken"
			}
		} else {
			res = "dropped"
		}
	case "slowtraverse":
		b.TraverseDecorators(func(decor.Decorator) { time.Sleep(time.Duration(op.N) * time.Microsecond) })
	case "cancel":
		rr.cancelled.Store(true)
		rr.cancel()
		res = rr.runningAfterStop()
	case "shutdown":
		rr.cancelled.Store(true)
		rr.p.Shutdown()
		res = rr.runningAfterStop()
	case "release":
		rr.releaseDelay()
	case "waitcycles":
		if raceMode {
			time.Sleep(time.Duration(op.N) * 300 * time.Microsecond)
			break
		}
		n0 := hk.counts[hpRenderEnd].Load()
		for t0 := time.Now(); hk.counts[hpRenderEnd].Load() < n0+op.N && !rr.dead.Load() && time.Since(t0) < 200*time.Millisecond; {
			time.Sleep(20 * time.Microsecond)
		}
	case "prio":
		rr.p.UpdateBarPriority(b, int(op.N), op.F)
	case "setprio":
		b.SetPriority(int(op.N))
	case "get":
		res = fmt.Sprintf("%d,%v,%v,%v,%d", b.Current(), b.Completed(), b.Aborted(), b.IsRunning(), b.ID())
	case "barwait":
		b.Wait()
	case "pwait":
		rr.p.Wait() // several goroutines may wait on one container
	case "busy":
		// keeps the bar's goroutine occupied until the scenario's cancellation landed (bounded)
		// (a slow callback inside the bar's goroutine: when it returns, a pending
		// render request and the cancellation are both ready)
		slow := func(decor.Decorator) { time.Sleep(time.Duration(1500+op.N) * time.Microsecond) }
		for t0 := time.Now(); !rr.cancelled.Load() && !rr.finished.Load() && time.Since(t0) < 2*time.Second; {
			b.TraverseDecorators(slow)
		}
		for k := 0; k < 3; k++ {
			b.TraverseDecorators(slow)
		}
	case "barwaitget":
		b.Wait()
		c, ab, run := b.Completed(), b.Aborted(), b.IsRunning()
		res = fmt.Sprintf("%v,%v,%v", c, ab, run)
	case "barwaitdone":
		if !b.IsRunning() {
			b.Wait()
		}
	case "traverse":
		// the callback runs in the bar's goroutine, possibly after TraverseDecorators returned
		b.TraverseDecorators(func(decor.Decorator) {})
	case "proxywrite":
		if pw := b.ProxyWriter(io.Discard); pw != nil {
			n, _ := pw.Write(make([]byte, int(op.N)))
			pw.Close()
			res = fmt.Sprint(n)
		} else {
			res = "nil"
		}
	case "avgadjust":
		b.DecoratorAverageAdjust(time.Now().Add(-time.Second))
	case "proxyread":
		if pr := b.ProxyReader(strings.NewReader(strings.Repeat("x", int(op.N)))); pr != nil {
			n, _ := io.Copy(io.Discard, pr)
			pr.Close()
			res = fmt.Sprint(n)
		} else {
			res = "nil"
		}
	default:
		v := callOp(b, BOp{K: op.K, N: op.N, F: op.F, D: 1000})
		if (BOp{K: op.K}).isGetter() {
			res = fmt.Sprint(v)
		}
	}
	rr.finish(i, res, false)
}

func (rr *runRec) releaseDelay() {
	if rr.delayCh != nil {
		rr.mu.Lock()
		ch := rr.delayCh
		rr.delayCh = nil
		rr.mu.Unlock()
		if ch != nil {
			tick()
			close(ch)
			tick()
		}
	}
}

// ---------------------------------------------------------------- the run

func newRunRec(sc *Scenario) *runRec {
	n := len(sc.Bars)
	rr := &runRec{sc: sc, bars: make([]*mpb.Bar, n), listenerCalls: make([][]int32, n), listenerN: make([]int, n), renderK: make([]int64, n), quit: make(chan struct{}), addFailed: make([]atomic.Bool, n)}
	return rr
}

func (rr *runRec) containerOptions() []mpb.ContainerOption {
	sc := rr.sc
	var opts []mpb.ContainerOption
	if sc.Mode == "pty" {
		opts = append(opts, mpb.WithOutput(rr.pty.slave))
		if sc.Width > 0 {
			opts = append(opts, mpb.WithWidth(sc.Width))
		}
		opts = append(opts, mpb.WithRefreshRate(time.Duration(sc.RefreshUS)*time.Microsecond))
	} else {
		rr.mem = &memWriter{rr: rr, failAt: sc.OutFailAt}
		opts = append(opts, mpb.WithOutput(rr.mem), mpb.WithWidth(sc.Width))
		if sc.NilOut {
			opts = append(opts, mpb.WithOutput(nil)) // frames are discarded: only for checks that do not read them
		}
		switch sc.Mode {
		case "auto":
			opts = append(opts, mpb.WithAutoRefresh(), mpb.WithRefreshRate(time.Duration(sc.RefreshUS)*time.Microsecond))
		case "manual":
			rr.manualCh = make(chan interface{})
			// both refresh options given, in either order: the manual one wins whatever
			// the order (decided from the scenario seed, so a replay does the same)
			switch sc.Seed % 6 {
			case 0:
				opts = append(opts, mpb.WithManualRefresh(rr.manualCh), mpb.WithAutoRefresh())
			case 3:
				opts = append(opts, mpb.WithAutoRefresh(), mpb.WithManualRefresh(rr.manualCh))
			default:
				opts = append(opts, mpb.WithManualRefresh(rr.manualCh))
			}
		}
	}
	if sc.Q >= 0 {
		opts = append(opts, mpb.WithQueueLen(sc.Q))
	}
	if sc.Pop {
		opts = append(opts, mpb.PopCompletedMode())
	}
	if sc.Delay {
		rr.delayCh = make(chan struct{})
		opts = append(opts, mpb.WithRenderDelay(rr.delayCh))
	}
	if sc.Notifier {
		rr.notifCh = make(chan interface{}, 4)
		opts = append(opts, mpb.WithShutdownNotifier(rr.notifCh))
	}
	if sc.UWG {
		rr.uwg = new(sync.WaitGroup)
		opts = append(opts, mpb.WithWaitGroup(rr.uwg))
	}
	if sc.NilDbg {
		opts = append(opts, mpb.WithDebugOutput(nil))
	} else {
		opts = append(opts, mpb.WithDebugOutput(lockedBuf{rr}))
	}
	return opts
}

// isTerminalOp: ops that (may) end a bar.
func (rr *runRec) allBarsFinished() bool {
	for i := range rr.sc.Bars {
		b := rr.bar(i)
		if b == nil {
			continue
		}
		if !(b.Completed() || b.Aborted()) {
			return false
		}
	}
	return true
}

// execute runs the scenario body on the calling goroutine (the director).
func (rr *runRec) execute() {
	sc := rr.sc
	defer func() {
		rr.finished.Store(true)
		close(rr.quit)
	}()
	if sc.Mode == "pty" {
		pp, err := openPty(sc.PtyRows, sc.PtyCols)
		if err != nil {
			rr.note("HARNESS: pty: %v", err)
			return
		}
		rr.pty = pp
		pp.rr = rr
		defer pp.close()
	}
	ctx, cancel := context.WithCancel(context.Background())
	rr.cancel = cancel
	defer cancel()
	setHookCallback(rr.hook)
	defer setHookCallback(nil)
	if sc.End == "natural" && sc.Trig == nil && common.H(sc.Seed, "nilctx")%4 == 0 {
		// nobody cancels in this scenario: a nil context stands for the background context
		rr.p = mpb.NewWithContext(nil, rr.containerOptions()...) //nolint:staticcheck
	} else {
		rr.p = mpb.NewWithContext(ctx, rr.containerOptions()...)
	}

	for i, b := range sc.Bars {
		if b.AddBy < 0 {
			ix := rr.record(-1, i, Op{K: "add", B: i})
			rr.finish(ix, rr.addBar(i), false)
		}
	}
	var cwg sync.WaitGroup
	var uwgN int
	for ci, ops := range sc.Clients {
		cwg.Add(1)
		if rr.uwg != nil {
			rr.uwg.Add(1)
			uwgN++
		}
		go func(ci int, ops []Op) {
			defer cwg.Done()
			if rr.uwg != nil {
				defer rr.uwg.Done()
			}
			for i, op := range ops {
				rr.doOp(ci, i, op)
			}
		}(ci, ops)
	}
	var wwg sync.WaitGroup
	for wi, ops := range sc.Waiters {
		wwg.Add(1)
		go func(wi int, ops []Op) {
			defer wwg.Done()
			for i, op := range ops {
				rr.doOp(100+wi, i, op)
			}
		}(wi, ops)
	}
	defer wwg.Wait()
	joinClients := func() { cwg.Wait() }
	if !sc.WaitEarly {
		joinClients()
	}
	// finisher: drive every bar that is not terminal to its end (natural endings)
	if sc.End == "natural" {
		for i, spec := range sc.Bars {
			b := rr.waitBar(i)
			if b == nil {
				continue
			}
			if sc.WaitEarly && spec.AddBy >= 0 {
				continue // its own client finishes it
			}
			if sc.Anchor && i == 0 {
				continue // finished once every client is done (keeps the wait group above zero)
			}
			rr.finishBar(i, b, spec)
		}
		for k := 0; k < sc.FinalRefr; k++ {
			rr.doOp(-1, 2000+k, Op{K: "refresh"})
		}
	} else if !rr.cancelled.Load() {
		// (a trigger that has not fired by now is overtaken by the director)
		// cancellation by the director after the clients
		if sc.End == "cancel" {
			rr.doOp(-1, 3000, Op{K: "cancel"})
		} else {
			rr.doOp(-1, 3000, Op{K: "shutdown"})
		}
	}
	if sc.Anchor && sc.End == "natural" {
		go func() {
			cwg.Wait()
			if b := rr.bar(0); b != nil {
				rr.finishBar(0, b, sc.Bars[0])
			}
			rr.markAllTerminal()
		}()
	} else if sc.WaitEarly && sc.End == "natural" {
		// bars were all finished by the director; only writers keep running
		rr.markAllTerminal()
	} else if !sc.WaitEarly {
		rr.markAllTerminal()
	}
	rr.tWaitInv.Store(tick())
	rr.p.Wait()
	// "notified ... before Wait returns": the counters as they stand at this very moment
	rr.listenerAtWait = make([][]int32, len(rr.listenerCalls))
	for i := range rr.listenerCalls {
		for k := range rr.listenerCalls[i] {
			rr.listenerAtWait[i] = append(rr.listenerAtWait[i], atomic.LoadInt32(&rr.listenerCalls[i][k]))
		}
	}
	rr.tWaitRet.Store(tick())
	if sc.WaitEarly {
		joinClients()
	}
	rr.afterWait()
}

// finishBar drives a bar to a terminal state: the spec's own finishing call
// first; if the clients' operations made that call a no-op (e.g. SetTotal is
// ignored once triggering is enabled), a completing SetCurrent, then Abort.
func (rr *runRec) finishBar(i int, b *mpb.Bar, spec BarSpec) {
	term := func() bool { return b.Completed() || b.Aborted() }
	for _, op := range (&gen{}).finishOp(i, spec) {
		if term() {
			return
		}
		rr.doOp(-1, 1000+i, op)
	}
	if spec.Finish == "none" || term() {
		return
	}
	rr.doOp(-1, 1000+i, Op{K: "setcur", B: i, N: 1 << 62})
	if !term() {
		rr.doOp(-1, 1000+i, Op{K: "abort", B: i})
	}
}

// markAllTerminal: from here on every bar has been driven to a terminal state
// (or the container was cancelled); the bounded-progress rule starts counting.
func (rr *runRec) markAllTerminal() {
	rr.cyclesAtTerminal.Store(hk.counts[hpRenderBegin].Load())
	rr.tAllTerminal.Store(tick())
}

func (rr *runRec) releaseDelayIfNeverReleased() {
	// scenarios that want the delay to stay closed say so by not containing a release op;
	// nothing to do here: Wait must return regardless (C01/C04)
}

func (rr *runRec) afterWait() {
	sc := rr.sc
	// notifier: exactly one value expected
	if rr.notifCh != nil {
		deadline := time.Now().Add(2 * time.Second)
		for len(rr.notif) == 0 && time.Now().Before(deadline) {
			select {
			case v := <-rr.notifCh:
				rr.notif = append(rr.notif, rr.barList(v))
			default:
				time.Sleep(100 * time.Microsecond)
			}
		}
	}
	// post-Wait getters
	for i := range sc.Bars {
		b := rr.bar(i)
		if b == nil {
			rr.postWait = append(rr.postWait, getterSnap{ID: -1})
			continue
		}
		rr.postWait = append(rr.postWait, getterSnap{Cur: b.Current(), Compl: b.Completed(), Abrt: b.Aborted(), Running: b.IsRunning(), ID: b.ID()})
	}
	if sc.Late {
		rr.lateCalls()
	}
	// drain: every library goroutine must be gone or leave without input (C16)
	rr.leak = rr.drainCheck()
	if rr.notifCh != nil {
		// a second value would be a duplicate notification
		select {
		case v := <-rr.notifCh:
			rr.notif = append(rr.notif, rr.barList(v))
		default:
		}
	}
}

func (rr *runRec) barList(v interface{}) []int {
	bars, ok := v.([]*mpb.Bar)
	if !ok {
		return []int{-99}
	}
	var out []int
	for _, b := range bars {
		if ix, ok := rr.ptr2ix.Load(b); ok {
			out = append(out, ix.(int))
		} else {
			out = append(out, -1)
		}
	}
	return out
}

// lateCalls: calls issued after Wait returned (C02).
func (rr *runRec) lateCalls() {
	sc := rr.sc
	bad := func(format string, a ...interface{}) {
		rr.lateMsgs = append(rr.lateMsgs, fmt.Sprintf(format, a...))
	}
	if b, err := rr.p.Add(10, nil); err != mpb.ErrDone || b != nil {
		bad("late Add returned (%v, %v), want (nil, ErrDone)", b, err)
	}
	if n, err := rr.p.Write([]byte("~late~\n")); n != 0 || err != mpb.ErrDone {
		bad("late Write returned (%d, %v), want (0, ErrDone)", n, err)
	}
	nOuts := func() int {
		rr.mu.Lock()
		defer rr.mu.Unlock()
		n := 0
		for _, o := range rr.outs {
			n += len(o.B)
		}
		return n
	}
	o0 := nOuts()
	for i := range sc.Bars {
		b := rr.bar(i)
		if b == nil {
			continue
		}
		before := rr.postWait[i]
		b.IncrBy(3)
		b.Increment()
		b.IncrInt64(1 << 40)
		b.SetCurrent(1)
		b.SetTotal(12345, true)
		b.EnableTriggerComplete()
		b.SetRefill(2)
		b.EwmaIncrement(time.Millisecond)
		b.EwmaSetCurrent(7, time.Millisecond)
		b.Abort(true)
		b.SetPriority(-5)
		b.TraverseDecorators(func(decor.Decorator) {})
		if pr := b.ProxyReader(strings.NewReader("abc")); pr != nil {
			bad("late ProxyReader on bar %d returned a proxy", i)
		}
		if pw := b.ProxyWriter(io.Discard); pw != nil {
			bad("late ProxyWriter on bar %d returned a proxy", i)
		}
		b.EwmaIncrBy(2, time.Millisecond)
		b.EwmaIncrInt64(1<<40, time.Millisecond)
		b.DecoratorAverageAdjust(time.Now().Add(-time.Second))
		b.SetTotal(-1, false)
		b.Abort(false)
		b.Wait()
		after := getterSnap{Cur: b.Current(), Compl: b.Completed(), Abrt: b.Aborted(), Running: b.IsRunning(), ID: b.ID()}
		if after != before {
			bad("late mutators changed bar %d: %+v -> %+v", i, before, after)
		}
		if after.Running {
			bad("bar %d still IsRunning after Wait", i)
		}
	}
	rr.p.UpdateBarPriority(rr.bar(0), 3, false)
	rr.p.Wait()
	rr.p.Shutdown()
	if o1 := nOuts(); o1 != o0 {
		bad("late calls produced %d bytes of output", o1-o0)
	}
}

// drainCheck polls goroutine dumps until no library frame remains. A library
// goroutine that stays parked (same id, state, stack) across the polls while
// nothing else runs is a leak.
func (rr *runRec) drainCheck() string {
	var prev map[int]string
	stable := 0
	for k := 0; k < 400; k++ {
		gs := stuck.Parse(stuck.Dump())
		cur := map[int]string{}
		for _, g := range gs {
			lf := g.LibFrames()
			if len(lf) == 0 {
				continue
			}
			if g.Has("main.(*runRec).lateCalls") || g.Has("main.(*runRec).afterWait") {
				continue
			}
			if g.Has("main.(*listenerDec).OnShutdown") {
				continue // harness callback still running
			}
			cur[g.ID] = g.State + "|" + strings.Join(g.Frames, ";")
		}
		if len(cur) == 0 {
			return ""
		}
		same := prev != nil && len(prev) == len(cur)
		if same {
			for id, s := range cur {
				if prev[id] != s {
					same = false
					break
				}
			}
		}
		allParked := true
		for _, s := range cur {
			st := s[:strings.Index(s, "|")]
			if !stuck.Parked(st) {
				allParked = false
			}
		}
		if same && allParked {
			stable++
			if stable >= 5 {
				var sb strings.Builder
				for id, s := range cur {
					fmt.Fprintf(&sb, "goroutine %d: %s\n", id, s)
				}
				return sb.String()
			}
		} else {
			stable = 0
		}
		prev = cur
		time.Sleep(time.Duration(200+k*50) * time.Microsecond)
	}
	return "" // still moving after the poll budget: not decided here
}

// ---------------------------------------------------------------- monitor

// runScenario executes sc under the stuck-state monitor. It returns the record
// and whether the process must be restarted (a container could not be torn down).
func runScenario(sc *Scenario, watchdog time.Duration) (rr *runRec, mustRestart bool) {
	rr = newRunRec(sc)
	rr.wallStart = time.Now()
	done := make(chan struct{})
	go func() {
		defer close(done)
		rr.execute()
	}()
	lastClock := hk.clock.Load()
	lastMove := time.Now()
	spinChecked := false
	var lastTry time.Time
	quiet := 300 * time.Millisecond
	if d := 20 * time.Duration(sc.RefreshUS) * time.Microsecond; d > quiet {
		quiet = d
	}
	for {
		select {
		case <-done:
			return rr, false
		default:
		}
		time.Sleep(2 * time.Millisecond)
		c := hk.clock.Load()
		now := time.Now()
		if c != lastClock {
			lastClock, lastMove = c, now
			spinChecked = false
			// livelock: bounded progress in completed render cycles (DESIGN 2.4)
			if t := rr.tWaitInv.Load(); t != 0 && rr.tWaitRet.Load() == 0 && rr.tAllTerminal.Load() != 0 {
				if hk.counts[hpRenderBegin].Load()-rr.cyclesAtTerminal.Load() > livelockBound(sc) && now.Sub(rr.wallStart) > time.Second {
					rr.stuckKind = "livelock"
					rr.stuckDump = stuck.Dump()
					rr.stuckSig = "livelock:" + rr.runningBarsClass()
					return rr, true
				}
			}
		} else if now.Sub(lastMove) > quiet && now.Sub(lastTry) > 500*time.Millisecond {
			lastTry = now
			d1 := stuck.Dump()
			time.Sleep(150 * time.Millisecond)
			if hk.clock.Load() == c {
				d2 := stuck.Dump()
				g1, g2 := stuck.Parse(d1), stuck.Parse(d2)
				if ok, _ := stuck.Certify(g1, g2, isHarnessMonitor, isPtyReader); ok {
					rr.stuckKind = "deadlock"
					rr.stuckDump = d2
					rr.stuckSig = stuck.Signature(g2, isHarnessMonitor)
					return rr, true
				}
			}
			if hk.clock.Load() != c {
				lastMove = time.Now()
				lastClock = hk.clock.Load()
				spinChecked = false
			}
		}
		// spinning: the logical clock has stood still for 5 s while some goroutine is
		// running library code in every one of five dumps taken 100 ms apart (a loop in
		// the library that makes no progress). Harness goroutines only ever sleep-poll.
		if now.Sub(lastMove) > 5*time.Second && !spinChecked {
			spinChecked = true
			if fn := spinningLibraryFrame(); fn != "" && hk.clock.Load() == c {
				rr.stuckKind = "deadlock"
				rr.stuckDump = stuck.Dump()
				rr.stuckSig = "spin@" + fn
				return rr, true
			}
		}
		if now.Sub(rr.wallStart) > watchdog {
			rr.stuckKind = "watchdog"
			rr.stuckDump = stuck.Dump()
			return rr, true
		}
	}
}

// livelockBound: 4*bars+16 completed render cycles always suffice once every
// bar is terminal (two terminal frames per bar, three in pop mode, successors
// their own, the final loop a few); the factor is the safety margin.
func livelockBound(sc *Scenario) int64 {
	n := int64(4*len(sc.Bars) + 16)
	if len(sc.Bars) > 50 {
		return 12 * n
	}
	return 50 * n
}

// runningBarsClass names, for the finding key, which kind of bars are still
// running although all were driven to a terminal state.
func (rr *runRec) runningBarsClass() string {
	set := map[string]bool{}
	for i, spec := range rr.sc.Bars {
		b := rr.bar(i)
		if b == nil || !b.IsRunning() {
			continue
		}
		if spec.After >= 0 {
			set["queued-bar-never-flushed"] = true
		} else {
			set["bar-never-cancelled"] = true
		}
	}
	var ks []string
	for k := range set {
		ks = append(ks, k)
	}
	sort.Strings(ks)
	if len(ks) == 0 {
		return "no-bar-running"
	}
	return strings.Join(ks, ",")
}

// spinningLibraryFrame: the innermost library function of a goroutine that is
// running or runnable inside the library - a library frame innermost, or below
// it only runtime and standard-library frames the library called (a loop around
// bytes.Buffer.ReadBytes spins in the standard library most of the time) - in
// all of five dumps 100 ms apart; "" if there is none. A goroutine whose
// innermost frame outside runtime/standard library belongs to the harness (a
// decorator or filler callback) is not judged.
func spinningLibraryFrame() string {
	count := map[string]int{}
	for k := 0; k < 5; k++ {
		seen := map[string]bool{}
		for _, g := range stuck.Parse(stuck.Dump()) {
			if g.State != "running" && g.State != "runnable" {
				continue
			}
			for _, f := range g.Frames {
				if strings.HasPrefix(f, "created by") {
					break
				}
				if strings.HasPrefix(f, "main.") || strings.Contains(f, "verif/harness") {
					break // harness code on top: its own business
				}
				if strings.Contains(f, "github.com/vbauerster/mpb/v8") {
					if !strings.Contains(f, ".vhook") {
						seen[f] = true
					}
					break
				}
				// runtime or standard library frame: look further out
			}
		}
		for f := range seen {
			count[f]++
		}
		time.Sleep(100 * time.Millisecond)
	}
	for f, n := range count {
		if n == 5 {
			return f
		}
	}
	return ""
}

func isHarnessMonitor(g stuck.G) bool {
	return g.HasExact("main.runScenario") || g.Has("main.(*caseGuard).start") || g.Has("main.(*ptyPair).reader")
}

func isPtyReader(g stuck.G) bool { return g.Has("main.(*ptyPair).reader") }

var _ = os.Getpid
