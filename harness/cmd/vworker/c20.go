package main

// C20: size, percentage, time and rate decorators print the true value.
// Oracle: parse the printed string back (number, unit) and compare with the
// true value computed independently in big arithmetic, within half a unit of
// the last printed digit; the unit must be the largest that fits. Estimator
// clauses (zero-progress samples carried, delivery through wrappers, freeze
// after completion) are checked with a recording moving average.

import (
	"encoding/json"
	"fmt"
	"github.com/VividCortex/ewma"
	"math"
	"math/big"
	"sort"
	"strconv"
	"strings"
	"sync"
	"time"

	mpb "github.com/vbauerster/mpb/v8"
	"github.com/vbauerster/mpb/v8/decor"

	"verif/harness/internal/common"
)

func init() { runners["C20"] = runC20 }

// ---------------------------------------------------------------- number parsing

// parseNum parses a printed float (d/f/e/E/g/G/x/X/b output of strconv) and
// returns its value and the weight of its last printed digit.
func parseNum(s string) (val *big.Float, ulp *big.Float, err error) {
	s = strings.TrimSpace(s)
	neg := false
	if strings.HasPrefix(s, "-") {
		neg = true
		s = s[1:]
	} else if strings.HasPrefix(s, "+") {
		s = s[1:]
	}
	low := strings.ToLower(s)
	if low == "nan" || low == "inf" || strings.Contains(low, "inf") || strings.Contains(low, "nan") {
		return nil, nil, fmt.Errorf("NaN/Inf printed: %q", s)
	}
	prec := uint(300)
	mk := func() *big.Float { return new(big.Float).SetPrec(prec) }
	pow := func(base float64, e int) *big.Float {
		r := mk().SetInt64(1)
		b := mk().SetFloat64(base)
		n := e
		if n < 0 {
			n = -n
		}
		for i := 0; i < n; i++ {
			r.Mul(r, b)
		}
		if e < 0 {
			r = mk().Quo(mk().SetInt64(1), r)
		}
		return r
	}
	switch {
	case strings.HasPrefix(low, "0x"):
		// hex float: 0xh.hhhp±dd
		body := low[2:]
		pi := strings.IndexByte(body, 'p')
		if pi < 0 {
			return nil, nil, fmt.Errorf("bad hex float %q", s)
		}
		mant, exps := body[:pi], body[pi+1:]
		e, e2 := strconv.Atoi(exps)
		if e2 != nil {
			return nil, nil, fmt.Errorf("bad hex exponent %q", s)
		}
		frac := 0
		if di := strings.IndexByte(mant, '.'); di >= 0 {
			frac = len(mant) - di - 1
			mant = mant[:di] + mant[di+1:]
		}
		mi, ok := new(big.Int).SetString(mant, 16)
		if !ok {
			return nil, nil, fmt.Errorf("bad hex mantissa %q", s)
		}
		scale := mk().Mul(pow(16, -frac), pow(2, e))
		val = mk().Mul(mk().SetInt(mi), scale)
		ulp = scale
	case strings.Contains(low, "p"):
		// %b: mantissa p exponent (decimal mantissa, binary exponent): exact
		pi := strings.IndexByte(low, 'p')
		mi, ok := new(big.Int).SetString(low[:pi], 10)
		e, e2 := strconv.Atoi(low[pi+1:])
		if !ok || e2 != nil {
			return nil, nil, fmt.Errorf("bad %%b float %q", s)
		}
		scale := pow(2, e)
		val = mk().Mul(mk().SetInt(mi), scale)
		ulp = scale
	default:
		mant, e := low, 0
		if ei := strings.IndexByte(low, 'e'); ei >= 0 {
			mant = low[:ei]
			var e2 error
			e, e2 = strconv.Atoi(low[ei+1:])
			if e2 != nil {
				return nil, nil, fmt.Errorf("bad exponent %q", s)
			}
		}
		frac := 0
		if di := strings.IndexByte(mant, '.'); di >= 0 {
			frac = len(mant) - di - 1
			mant = mant[:di] + mant[di+1:]
		}
		if mant == "" {
			return nil, nil, fmt.Errorf("empty number %q", s)
		}
		mi, ok := new(big.Int).SetString(mant, 10)
		if !ok {
			return nil, nil, fmt.Errorf("bad number %q", s)
		}
		scale := pow(10, e-frac)
		val = mk().Mul(mk().SetInt(mi), scale)
		ulp = scale
	}
	if neg {
		val.Neg(val)
	}
	return val, ulp, nil
}

// within reports |printed - truth| <= ulp/2 + eps*|truth| (eps covers the
// float64 arithmetic the formatter may legitimately use).
func within(printed, ulp, truth *big.Float, shortest bool) bool {
	d := new(big.Float).SetPrec(300).Sub(printed, truth)
	d.Abs(d)
	tol := new(big.Float).SetPrec(300).Quo(ulp, big.NewFloat(2))
	if shortest {
		tol.SetInt64(0) // shortest round-trip formatting: exact up to float eps
	}
	eps := new(big.Float).SetPrec(300).Abs(truth)
	eps.Mul(eps, big.NewFloat(4e-16))
	tol.Add(tol, eps)
	return d.Cmp(tol) <= 0
}

// ---------------------------------------------------------------- sizes

type c20Size struct {
	Sys int    `json:"sys"` // 1024 | 1000
	V   int64  `json:"value"`
	Fmt string `json:"fmt"`
	Via string `json:"via"` // direct | counters | total | current | inverted | speed
	Tot int64  `json:"total,omitempty"`
}

var units1024 = []struct {
	name string
	v    int64
}{{"b", 1}, {"KiB", 1 << 10}, {"MiB", 1 << 20}, {"GiB", 1 << 30}, {"TiB", 1 << 40}}
var units1000 = []struct {
	name string
	v    int64
}{{"b", 1}, {"KB", 1000}, {"MB", 1000000}, {"GB", 1000000000}, {"TB", 1000000000000}}

func splitNumUnit(s string, sys int) (num, unit string, space bool, ok bool) {
	s = strings.TrimSuffix(s, "/s")
	us := units1024
	if sys == 1000 {
		us = units1000
	}
	for i := len(us) - 1; i >= 0; i-- {
		if strings.HasSuffix(s, us[i].name) {
			// "b" is also the last letter of KiB...: longest first works because i runs from TiB down; "b" last
			rest := strings.TrimSuffix(s, us[i].name)
			if us[i].name == "b" && (strings.HasSuffix(rest, "Ki") || strings.HasSuffix(rest, "Mi") || strings.HasSuffix(rest, "Gi") || strings.HasSuffix(rest, "Ti")) {
				continue
			}
			sp := strings.HasSuffix(rest, " ")
			return strings.TrimSpace(rest), us[i].name, sp, true
		}
	}
	return "", "", false, false
}

// checkSizeString verifies that s (e.g. "1.5 KiB") reads back to v.
func checkSizeString(s string, sys int, v int64, format string) string {
	num, unit, space, ok := splitNumUnit(s, sys)
	if !ok {
		return fmt.Sprintf("no unit recognised in %q", s)
	}
	us := units1024
	if sys == 1000 {
		us = units1000
	}
	want := us[0]
	for _, u := range us {
		if v >= u.v {
			want = u
		}
	}
	if unit != want.name {
		return fmt.Sprintf("%d printed as %q: unit %s, the largest unit that fits is %s", v, s, unit, want.name)
	}
	if strings.Contains(format, " ") != space && strings.Contains(format, "%") {
		// the space flag asks for a space between number and unit
		if strings.Contains(format, "% ") && !space {
			return fmt.Sprintf("%d printed as %q with format %q: space flag ignored", v, s, format)
		}
	}
	pv, ulp, err := parseNum(num)
	if err != nil {
		return fmt.Sprintf("%d printed as %q: %v", v, s, err)
	}
	truth := new(big.Float).SetPrec(300).Quo(new(big.Float).SetPrec(300).SetInt64(v), new(big.Float).SetPrec(300).SetInt64(want.v))
	if !within(pv, ulp, truth, false) {
		return fmt.Sprintf("%d printed as %q (format %q): reads back as %s %s, true value %s %s, more than half a unit of the last printed digit away", v, s, format, pv.Text('g', 20), unit, truth.Text('g', 20), unit)
	}
	return ""
}

var c20Verbs = []string{"%d", "% d", "%s", "%v", "%f", "% f", "%.0f", "%.1f", "% .2f", "%.3f", "%.6f", "%.9f", "%e", "%.3e", "%E", "%g", "%.4g", "%G", "%x", "%.3X", "%b", "%10.2f", "%-12.1f|", "%08.3f", "%+.1f"}

func sizeLattice(sys int) []int64 {
	var out []int64
	us := units1024
	if sys == 1000 {
		us = units1000
	}
	for _, u := range us {
		for d := int64(-2); d <= 2; d++ {
			for _, m := range []int64{1, 2, 10, 512, 999, 1000, 1023} {
				v := u.v*m + d
				if v >= 0 {
					out = append(out, v)
				}
			}
		}
		// half-way points at several precisions
		out = append(out, u.v+u.v/2, u.v+u.v/20, u.v+u.v/200, u.v*3/2+1, u.v*3/2-1)
	}
	out = append(out, 0, 1, math.MaxInt64, math.MaxInt64-1, 1<<53, 1<<53+1, 1<<62, 1<<57+1)
	return out
}

func runSize(c c20Size) (msg string, str string) {
	defer func() {
		if r := recover(); r != nil {
			msg = fmt.Sprintf("panic formatting %+v: %v", c, r)
		}
	}()
	format := c.Fmt
	switch c.Via {
	case "direct":
		if c.Sys == 1024 {
			str = fmt.Sprintf(format, decor.SizeB1024(c.V))
		} else {
			str = fmt.Sprintf(format, decor.SizeB1000(c.V))
		}
	case "total", "current", "inverted", "counters":
		var unit interface{} = decor.SizeB1024(0)
		if c.Sys == 1000 {
			unit = decor.SizeB1000(0)
		} else if c.Sys == 0 {
			unit = 0 // plain integers
		}
		st := decor.Statistics{Total: c.Tot, Current: c.V}
		var d decor.Decorator
		switch c.Via {
		case "total":
			d = decor.Total(unit, format)
			st.Total, st.Current = c.V, 0
		case "current":
			d = decor.Current(unit, format)
		case "inverted":
			d = decor.InvertedCurrent(unit, format)
			st.Total, st.Current = c.Tot, c.Tot-c.V
		case "counters":
			if format == "" {
				d = decor.Counters(unit, "") // the documented default pair format: "current / total"
			} else {
				d = decor.Counters(unit, format+"#"+format)
			}
		}
		str, _ = d.Decor(st)
		if c.Via == "counters" {
			sep := "#"
			if format == "" {
				sep = "/" // the default pair format separates the two with a slash (its exact spacing is not relied on)
			}
			parts := strings.SplitN(str, sep, 2)
			if len(parts) != 2 {
				return fmt.Sprintf("counters printed %q", str), str
			}
			if m := checkPlainOrSize(trimPad(parts[1], format), c.Sys, c.Tot, format); m != "" {
				return "total of counters: " + m, str
			}
			str = parts[0]
		}
	}
	return checkPlainOrSize(trimPad(str, format), c.Sys, c.V, format), str
}

// checkPlainOrSize: with a unit system the text is a size; without one (sys 0)
// it is the integer itself.
func checkPlainOrSize(s string, sys int, v int64, format string) string {
	if sys != 0 {
		return checkSizeString(s, sys, v, format)
	}
	pv, ulp, err := parseNum(s)
	if err != nil {
		return fmt.Sprintf("%d printed as %q: %v", v, s, err)
	}
	if !within(pv, ulp, new(big.Float).SetPrec(300).SetInt64(v), false) {
		return fmt.Sprintf("%d printed as %q (format %q): does not read back to the value", v, s, format)
	}
	return ""
}

// trimPad removes the literal tail of formats like "%-12.1f|" and width padding.
func trimPad(s, format string) string {
	s = strings.TrimSuffix(s, "|")
	return strings.TrimSpace(s)
}

// ---------------------------------------------------------------- percentage

type c20Pct struct {
	Cur int64  `json:"current"`
	Tot int64  `json:"total"`
	Fmt string `json:"fmt"`
}

func runPct(c c20Pct) (msg, str string) {
	defer func() {
		if r := recover(); r != nil {
			msg = fmt.Sprintf("panic formatting %+v: %v", c, r)
		}
	}()
	var d decor.Decorator
	if c.Fmt == "" {
		d = decor.Percentage()
	} else {
		d = decor.NewPercentage(c.Fmt)
	}
	str, _ = d.Decor(decor.Statistics{Total: c.Tot, Current: c.Cur})
	s := strings.TrimSpace(strings.TrimSuffix(str, "|"))
	if !strings.HasSuffix(s, "%") {
		return fmt.Sprintf("%d of %d printed as %q: no %% sign", c.Cur, c.Tot, str), str
	}
	num := strings.TrimSpace(strings.TrimSuffix(s, "%"))
	pv, ulp, err := parseNum(num)
	if err != nil {
		return fmt.Sprintf("%d of %d printed as %q: %v", c.Cur, c.Tot, str, err), str
	}
	truth := new(big.Float).SetPrec(300)
	if c.Tot > 0 {
		truth.Quo(new(big.Float).SetPrec(300).SetInt(new(big.Int).Mul(big.NewInt(100), big.NewInt(c.Cur))), new(big.Float).SetPrec(300).SetInt64(c.Tot))
	}
	if !within(pv, ulp, truth, false) {
		return fmt.Sprintf("%d of %d printed as %q (format %q): true percentage %s", c.Cur, c.Tot, str, c.Fmt, truth.Text('g', 20)), str
	}
	return "", str
}

// ---------------------------------------------------------------- durations

type c20Time struct {
	Style int     `json:"style"`
	D     int64   `json:"dur_ns"`
	Via   string  `json:"via"` // norm | ewmaeta | elapsed | avgeta
	Cur   int64   `json:"current,omitempty"`
	Tot   int64   `json:"total,omitempty"`
	PerNs float64 `json:"per_item_ns,omitempty"` // ewmaeta: the average handed to the decorator (0 = D/(Tot-Cur))
}

func parseClock(s string) (fields []int64, ok bool) {
	for _, p := range strings.Split(s, ":") {
		if len(p) < 2 {
			return nil, false
		}
		v, err := strconv.ParseInt(p, 10, 64)
		if err != nil || v < 0 {
			return nil, false
		}
		fields = append(fields, v)
	}
	return fields, true
}

// checkTimeString: s must read back to the true duration, which lies in [lo, hi],
// within the printed precision: not more than one unit of the style's resolution
// below it (truncation) and not more than half a unit above it (rounding). The
// slack of a few nanoseconds is the floating-point fuzz of computing lo and hi.
func checkTimeString(s string, style int, lo, hi time.Duration) string {
	s = strings.TrimSpace(s)
	var got time.Duration
	res := time.Second
	switch decor.TimeStyle(style) {
	case decor.ET_STYLE_GO:
		d, err := time.ParseDuration(s)
		if err != nil {
			return fmt.Sprintf("%q is not a duration: %v", s, err)
		}
		got = d
	case decor.ET_STYLE_HHMMSS:
		f, ok := parseClock(s)
		if !ok || len(f) != 3 || f[1] > 59 || f[2] > 59 {
			return fmt.Sprintf("%q is not HH:MM:SS", s)
		}
		got = time.Duration(f[0])*time.Hour + time.Duration(f[1])*time.Minute + time.Duration(f[2])*time.Second
	case decor.ET_STYLE_HHMM:
		f, ok := parseClock(s)
		if !ok || len(f) != 2 || f[1] > 59 {
			return fmt.Sprintf("%q is not HH:MM", s)
		}
		got = time.Duration(f[0])*time.Hour + time.Duration(f[1])*time.Minute
		res = time.Minute
	case decor.ET_STYLE_MMSS:
		f, ok := parseClock(s)
		if !ok || (len(f) != 2 && len(f) != 3) {
			return fmt.Sprintf("%q is not [HH:]MM:SS", s)
		}
		if len(f) == 2 {
			if f[0] > 59 || f[1] > 59 {
				return fmt.Sprintf("%q: field out of range", s)
			}
			got = time.Duration(f[0])*time.Minute + time.Duration(f[1])*time.Second
			if lo >= time.Hour {
				return fmt.Sprintf("%q omits the hours of a duration >= 1h (%v)", s, lo)
			}
		} else {
			got = time.Duration(f[0])*time.Hour + time.Duration(f[1])*time.Minute + time.Duration(f[2])*time.Second
		}
	}
	const fuzz = 4 * time.Nanosecond
	if got <= lo-res-fuzz || got > hi+res/2+fuzz {
		return fmt.Sprintf("printed %q = %v, true duration in [%v, %v] (resolution %v)", s, got, lo, hi, res)
	}
	return ""
}

type fixedAvg struct {
	mu    sync.Mutex
	v     float64
	added []float64
}

func (a *fixedAvg) Add(x float64)  { a.mu.Lock(); a.added = append(a.added, x); a.v = x; a.mu.Unlock() }
func (a *fixedAvg) Value() float64 { a.mu.Lock(); defer a.mu.Unlock(); return a.v }
func (a *fixedAvg) Set(x float64)  { a.mu.Lock(); a.v = x; a.mu.Unlock() }
func (a *fixedAvg) samples() []float64 {
	a.mu.Lock()
	defer a.mu.Unlock()
	return append([]float64(nil), a.added...)
}

const c20MaxDur = 60*time.Hour - 2*time.Second // documented domain: under 60 hours (with room for call overhead)

func runTime(c c20Time) (msg, str string) {
	if time.Duration(c.D) > c20MaxDur {
		return "", "(outside the documented domain, skipped)"
	}
	defer func() {
		if r := recover(); r != nil {
			msg = fmt.Sprintf("panic formatting %+v: %v", c, r)
		}
	}()
	D := time.Duration(c.D)
	switch c.Via {
	case "norm":
		d := decor.MovingAverageETA(decor.TimeStyle(c.Style), &fixedAvg{v: 1}, decor.TimeNormalizerFunc(func(time.Duration) time.Duration { return D }))
		str, _ = d.Decor(decor.Statistics{Total: 10, Current: 1})
		return checkTimeString(str, c.Style, D, D), str
	case "ewmaeta":
		// the true estimate: (total-current) items at the average time per item
		per := float64(c.D) / float64(c.Tot-c.Cur)
		if c.PerNs != 0 {
			per = c.PerNs
		}
		d := decor.MovingAverageETA(decor.TimeStyle(c.Style), &fixedAvg{v: per}, nil)
		str, _ = d.Decor(decor.Statistics{Total: c.Tot, Current: c.Cur})
		exp := time.Duration(math.Round(float64(c.Tot-c.Cur) * per))
		if exp > c20MaxDur+time.Second {
			return "", "(outside the documented domain, skipped)"
		}
		return checkTimeString(str, c.Style, exp, exp), str
	case "elapsed":
		t0 := time.Now()
		d := decor.NewElapsed(decor.TimeStyle(c.Style), t0.Add(-D))
		str, _ = d.Decor(decor.Statistics{Total: 10, Current: 1})
		over := time.Since(t0)
		return checkTimeString(str, c.Style, D, D+over), str
	case "avgeta":
		t0 := time.Now()
		d := decor.NewAverageETA(decor.TimeStyle(c.Style), t0.Add(-D), nil)
		str, _ = d.Decor(decor.Statistics{Total: c.Tot, Current: c.Cur})
		over := time.Since(t0)
		if c.Cur == 0 {
			return checkTimeString(str, c.Style, 0, 0), str
		}
		rem := func(el time.Duration) time.Duration {
			return time.Duration(math.Round(float64(c.Tot-c.Cur) * (float64(el) / float64(c.Cur))))
		}
		return checkTimeString(str, c.Style, rem(D), rem(D+over)), str
	}
	return "", ""
}

var carryDurs = []time.Duration{0, 1, 999 * time.Millisecond, time.Second, 59 * time.Second, 59*time.Second + 999*time.Millisecond, time.Minute, time.Minute + time.Second, 59 * time.Minute, 59*time.Minute + 59*time.Second, time.Hour - 1, time.Hour, time.Hour + 1, time.Hour + time.Minute, 2*time.Hour - time.Second, 9*time.Hour + 59*time.Minute + 59*time.Second, 10 * time.Hour, 23*time.Hour + 59*time.Minute + 59*time.Second, 24 * time.Hour, 48 * time.Hour, 59*time.Hour + 59*time.Minute + 59*time.Second + 999*time.Millisecond}

// ---------------------------------------------------------------- estimators

type c20Sample struct {
	N int64 `json:"n"`
	D int64 `json:"dur_ns"`
}

type c20Ewma struct {
	Kind    string      `json:"kind"` // speed | eta | median | const
	Wrap    int         `json:"wrap"` // wrapper depth 0..3
	Via     string      `json:"via"`  // direct | bar | barset (samples delivered through EwmaSetCurrent)
	Samples []c20Sample `json:"samples"`
	// kind const: the public constructors (EwmaETA / EwmaSpeed with their own
	// estimator of the given age, 0 = default) fed a constant rate
	Unit  int     `json:"unit,omitempty"` // speeds: 1024 | 1000 | 0 (no unit)
	SFmt  string  `json:"speed_fmt,omitempty"`
	Ctor  string  `json:"ctor,omitempty"` // ewmaeta | ewmaspeed
	Age   float64 `json:"age,omitempty"`
	PerNs int64   `json:"per_item_ns,omitempty"`
	// HiNs > 0: the rate is not constant, every sample costs between PerNs and HiNs
	// nanoseconds per item; an average of such samples lies between the two
	HiNs int64 `json:"hi_per_item_ns,omitempty"`
}

func (c c20Ewma) unit() interface{} {
	switch c.Unit {
	case 1024:
		return decor.SizeB1024(0)
	case 1000:
		return decor.SizeB1000(0)
	}
	return 0
}

// runConst: whatever the smoothing, an estimator fed one constant rate (every
// sample, with the time of the zero-progress samples before it carried in,
// has PerNs nanoseconds per item) estimates that rate.
func runConst(c c20Ewma) (msg string) {
	defer func() {
		if r := recover(); r != nil {
			msg = fmt.Sprintf("panic in estimator %+v: %v", c, r)
		}
	}()
	var base decor.Decorator
	// the harness' own estimator for the tsma-* cases: the ewma package's
	// NewMovingAverage(0) is not its default average but a degenerate one (decay
	// 2), so age 0 means "no argument" here exactly as in the library's constructors
	userAvg := func() ewma.MovingAverage {
		if c.Age == 0 {
			return ewma.NewMovingAverage()
		}
		return ewma.NewMovingAverage(c.Age)
	}
	switch c.Ctor {
	case "ewmaspeed":
		base = decor.EwmaSpeed(c.unit(), c.SFmt, c.Age)
	case "tsma-speed": // a user-supplied estimator made thread safe by the library's wrapper
		base = decor.MovingAverageSpeed(c.unit(), c.SFmt, decor.NewThreadSafeMovingAverage(userAvg()))
	case "tsma-eta":
		base = decor.MovingAverageETA(decor.ET_STYLE_GO, decor.NewThreadSafeMovingAverage(decor.NewThreadSafeMovingAverage(userAvg())), nil)
	default:
		base = decor.EwmaETA(decor.ET_STYLE_GO, c.Age)
	}
	d := wrapDeep(base, c.Wrap)
	const total = int64(1) << 40
	var cur int64
	if c.Via == "direct" {
		// (an estimator wrapper that forgets to release its lock parks the second call)
		sig, undecided := callCertified(func() {
			for _, s := range c.Samples {
				base.(decor.EwmaDecorator).EwmaUpdate(s.N, time.Duration(s.D))
				if s.N > 0 {
					cur += s.N
				}
			}
			d.Decor(decor.Statistics{Total: total, Current: cur})
			d.Decor(decor.Statistics{Total: total, Current: cur})
		})
		if sig != "" {
			return fmt.Sprintf("certified deadlock while feeding / reading the %s estimator directly: %s", c.Ctor, sig)
		}
		if undecided {
			return ""
		}
	} else {
		var sig string
		var undecided bool
		p := mpb.New(mpb.WithOutput(new(strings.Builder)), mpb.WithWidth(60))
		bar := p.AddBar(0, mpb.AppendDecorators(d))
		sig, undecided = callCertified(func() {
			for _, s := range c.Samples {
				if s.N > 0 {
					cur += s.N
				}
				if c.Via == "barset" {
					bar.EwmaSetCurrent(cur, time.Duration(s.D))
				} else {
					bar.EwmaIncrInt64(s.N, time.Duration(s.D))
				}
			}
			bar.Abort(true)
			p.Wait()
		})
		if sig != "" {
			return fmt.Sprintf("certified deadlock while delivering samples %v through a bar (%s): %s", c.Samples, c.Via, sig)
		}
		if undecided {
			return ""
		}
	}
	str, _ := d.Decor(decor.Statistics{Total: total, Current: cur})
	low := strings.ToLower(str)
	if strings.Contains(low, "nan") || strings.Contains(low, "inf") {
		return fmt.Sprintf("printed %q", str)
	}
	if c.HiNs > 0 {
		// varying rate: whatever the smoothing, an average of samples that all cost
		// between PerNs and HiNs per item lies between the two
		if strings.HasSuffix(c.Ctor, "speed") {
			lo, hi := 1e9/float64(c.HiNs), 1e9/float64(c.PerNs)
			pv, ulp, err := parseNum(strings.TrimSpace(str))
			if err != nil {
				return fmt.Sprintf("printed %q: %v", str, err)
			}
			v, _ := pv.Float64()
			u, _ := ulp.Float64()
			if v < lo*(1-1e-6)-u || v > hi*(1+1e-6)+u {
				return fmt.Sprintf("%s(age %v) after %d samples costing between %d and %d ns per item printed %q: outside [%v, %v] items/s, which no average of these samples can be", c.Ctor, c.Age, len(c.Samples), c.PerNs, c.HiNs, str, lo, hi)
			}
			return ""
		}
		lo, hi := float64(total-cur)*float64(c.PerNs), float64(total-cur)*float64(c.HiNs)
		if hi > float64(c20MaxDur) {
			return ""
		}
		if m := checkTimeString(str, int(decor.ET_STYLE_GO), time.Duration(lo*(1-1e-9)), time.Duration(hi*(1+1e-9))); m != "" {
			return fmt.Sprintf("%s(age %v) after %d samples costing between %d and %d ns per item, %d items left: %s (no average of these samples is outside that interval)", c.Ctor, c.Age, len(c.Samples), c.PerNs, c.HiNs, total-cur, m)
		}
		return ""
	}
	if strings.HasSuffix(c.Ctor, "speed") {
		speed := 1e9 / float64(c.PerNs)
		var m string
		if c.Unit == 0 {
			// no unit: the plain number of items per second
			pv, ulp, err := parseNum(strings.TrimSpace(str))
			if err != nil {
				m = fmt.Sprintf("printed %q: %v", str, err)
			} else if !within(pv, ulp, new(big.Float).SetPrec(300).SetFloat64(speed*(1-1e-6)), false) && !within(pv, ulp, new(big.Float).SetPrec(300).SetFloat64(speed*(1+1e-6)), false) && !within(pv, ulp, new(big.Float).SetPrec(300).SetFloat64(speed), false) {
				m = fmt.Sprintf("printed %q, true speed %v items/s", str, speed)
			}
		} else {
			m = checkSizeStringTol(str, c.Unit, speed, 1e-6, c.SFmt)
			if m == "" && !strings.HasSuffix(strings.TrimSpace(str), "/s") {
				m = fmt.Sprintf("speed %q lacks /s", str)
			}
		}
		if m != "" {
			return fmt.Sprintf("%s(unit %d, format %q, age %v) after %d samples at a constant %d ns per item: %s", c.Ctor, c.Unit, c.SFmt, c.Age, len(c.Samples), c.PerNs, m)
		}
		return ""
	}
	exp := float64(total-cur) * float64(c.PerNs)
	if exp > float64(c20MaxDur) {
		return ""
	}
	slack := time.Duration(exp * 1e-9) // smoothing arithmetic is floating point
	if m := checkTimeString(str, int(decor.ET_STYLE_GO), time.Duration(exp)-slack, time.Duration(exp)+slack); m != "" {
		return fmt.Sprintf("EwmaETA(age %v) after %d samples at a constant %d ns per item, %d items left: %s", c.Age, len(c.Samples), c.PerNs, total-cur, m)
	}
	return ""
}

// checkSizeStringTol: like checkSizeString for a real-valued truth known to a relative tolerance.
func checkSizeStringTol(s string, sys int, v float64, rel float64, format string) string {
	// (an empty format means the library's default, whose spacing is not relied on)
	lo, hi := int64(math.Floor(v*(1-rel))), int64(math.Ceil(v*(1+rel)))
	var first string
	for _, x := range []int64{int64(math.Round(v)), lo, hi} {
		m := checkSizeString(s, sys, x, format)
		if m == "" {
			return ""
		}
		if first == "" {
			first = m
		}
	}
	return first
}

func wrapDeep(d decor.Decorator, depth int) decor.Decorator {
	for i := 0; i < depth; i++ {
		switch i % 3 {
		case 0:
			d = decor.OnComplete(d, "done")
		case 1:
			d = decor.Meta(d, func(s string) string { return s })
		default:
			d = decor.OnAbort(d, "abrt")
		}
	}
	return d
}

// expectedAdds: the documented conservation rule for the estimators.
func expectedAdds(ss []c20Sample) []float64 {
	var out []float64
	var carry int64
	for _, s := range ss {
		if s.N <= 0 {
			carry += s.D
			continue
		}
		out = append(out, float64(carry+s.D)/float64(s.N))
		carry = 0
	}
	return out
}

// runMedian: the default estimator of MovingAverageETA (a median over the last
// three samples), read between samples as a render would.
func runMedian(c c20Ewma) (msg string) {
	defer func() {
		if r := recover(); r != nil {
			msg = fmt.Sprintf("panic in estimator %+v: %v", c, r)
		}
	}()
	var med ewma.MovingAverage = decor.NewMedian()
	if len(c.Samples)%2 == 1 {
		med = nil // a nil estimator selects the library default, the same median of three
	}
	d := wrapDeep(decor.MovingAverageETA(decor.ET_STYLE_GO, med, nil), c.Wrap)
	var base decor.Decorator = d
	for {
		w, ok := base.(decor.Wrapper)
		if !ok {
			break
		}
		base = w.Unwrap()
	}
	win := [3]float64{}
	var carry int64
	const total, current = 1000, 10
	for i, sm := range c.Samples {
		base.(decor.EwmaDecorator).EwmaUpdate(sm.N, time.Duration(sm.D))
		if sm.N <= 0 {
			carry += sm.D
		} else {
			win[0], win[1], win[2] = win[1], win[2], float64(carry+sm.D)/float64(sm.N)
			carry = 0
		}
		tmp := []float64{win[0], win[1], win[2]}
		sort.Float64s(tmp)
		exp := time.Duration(math.Round(float64(total-current) * tmp[1]))
		if exp > c20MaxDur || exp < 0 {
			continue
		}
		str, _ := d.Decor(decor.Statistics{Total: total, Current: current})
		if m := checkTimeString(str, int(decor.ET_STYLE_GO), exp, exp); m != "" {
			return fmt.Sprintf("median-of-three ETA after sample %d of %v: %s (window %v)", i, c.Samples, m, win)
		}
	}
	return ""
}

func runEwma(c c20Ewma) (msg string) {
	if c.Kind == "median" {
		return runMedian(c)
	}
	if c.Kind == "const" {
		return runConst(c)
	}
	defer func() {
		if r := recover(); r != nil {
			msg = fmt.Sprintf("panic in estimator %+v: %v", c, r)
		}
	}()
	avg := &fixedAvg{}
	var base decor.Decorator
	if c.Kind == "speed" {
		base = decor.MovingAverageSpeed(decor.SizeB1024(0), "% .2f", avg)
	} else {
		base = decor.MovingAverageETA(decor.ET_STYLE_GO, avg, nil)
	}
	d := wrapDeep(base, c.Wrap)
	if c.Via == "direct" {
		for _, s := range c.Samples {
			base.(decor.EwmaDecorator).EwmaUpdate(s.N, time.Duration(s.D))
		}
	} else {
		p := mpb.New(mpb.WithOutput(new(strings.Builder)), mpb.WithWidth(60))
		bar := p.AddBar(0, mpb.AppendDecorators(d))
		sig, undecided := callCertified(func() {
			var cur int64
			for _, s := range c.Samples {
				cur += s.N
				if c.Via == "barset" && s.N >= 0 && cur >= 0 {
					bar.EwmaSetCurrent(cur, time.Duration(s.D)) // the sample is the difference to the bar's current
				} else {
					bar.EwmaIncrInt64(s.N, time.Duration(s.D))
				}
			}
			bar.Abort(true)
			p.Wait()
		})
		if sig != "" {
			return fmt.Sprintf("certified deadlock while delivering samples %v through a bar (%s): %s", c.Samples, c.Via, sig)
		}
		if undecided {
			return ""
		}
	}
	got, exp := avg.samples(), expectedAdds(c.Samples)
	if len(got) != len(exp) {
		return fmt.Sprintf("estimator received %d per-item durations %v, expected %d %v for samples %v (wrapper depth %d, via %s)", len(got), got, len(exp), exp, c.Samples, c.Wrap, c.Via)
	}
	for i := range got {
		if math.IsNaN(got[i]) || math.IsInf(got[i], 0) {
			return fmt.Sprintf("estimator was fed %v (samples %v)", got[i], c.Samples)
		}
		if diff := math.Abs(got[i] - exp[i]); diff > 1e-9*math.Abs(exp[i]) {
			return fmt.Sprintf("per-item duration %d is %v, expected %v: time not conserved for samples %v", i, got[i], exp[i], c.Samples)
		}
	}
	// what is printed reads back to the average
	str, _ := d.Decor(decor.Statistics{Total: 1000, Current: 10})
	if strings.Contains(strings.ToLower(str), "nan") || strings.Contains(strings.ToLower(str), "inf") {
		return fmt.Sprintf("printed %q", str)
	}
	if c.Kind == "speed" && len(exp) > 0 {
		v := avg.Value()
		if v > 0 {
			speed := 1e9 / v
			if speed < 9e18 {
				if m := checkSizeString(str, 1024, int64(math.Round(speed)), "% .2f"); m != "" {
					return "speed: " + m
				}
				if !strings.HasSuffix(str, "/s") {
					return fmt.Sprintf("speed %q lacks /s", str)
				}
			}
		}
	}
	return ""
}

// freeze: elapsed and average speed stop changing once the bar has completed.
func runFreeze(kind string, style int) (msg string) {
	defer func() {
		if r := recover(); r != nil {
			msg = fmt.Sprintf("panic: %v", r)
		}
	}()
	// start chosen so that the printed value changes within a few milliseconds
	now := time.Now()
	var d decor.Decorator
	if kind == "elapsed" {
		d = decor.NewElapsed(decor.TimeStyle(style), now.Add(-(90*time.Second - 4*time.Millisecond)))
		if decor.TimeStyle(style) == decor.ET_STYLE_HHMM {
			d = decor.NewElapsed(decor.TimeStyle(style), now.Add(-(3*time.Minute - 4*time.Millisecond)))
		}
	} else {
		d = decor.NewAverageSpeed(decor.SizeB1024(0), "%.9f", now.Add(-50*time.Millisecond))
	}
	run := decor.Statistics{Total: 100, Current: 100 << 20}
	a, _ := d.Decor(run)
	time.Sleep(8 * time.Millisecond)
	b, _ := d.Decor(run) // still running: must have moved (sanity of the probe itself)
	fin := run
	fin.Completed = true
	time.Sleep(8 * time.Millisecond)
	c, _ := d.Decor(fin)
	// long enough for the next printed unit (a second; a minute for HH:MM would be
	// too long, there the 8 ms above straddle the minute) to have gone by
	time.Sleep(1100 * time.Millisecond)
	e, _ := d.Decor(fin)
	if a == b {
		if kind != "elapsed" {
			// current / elapsed with nine decimals, read at least 8 ms apart with the
			// same current: the true value has dropped by a tenth or more
			return fmt.Sprintf("average speed of a running bar did not move between two reads at least 8 ms apart (current unchanged, elapsed 50 ms -> 58 ms or more): %q then %q", a, b)
		}
		return "" // clock too coarse to tell; nothing observed
	}
	if c != b || e != b {
		return fmt.Sprintf("%s (style %d) kept changing after completion: running %q -> %q, completed %q -> %q", kind, style, a, b, c, e)
	}
	return ""
}

// ---------------------------------------------------------------- runner

func runC20(job common.Job, em *emitter) {
	for idx := job.From; idx < job.To; idx++ {
		em.Begin(idx, map[string]interface{}{"part": job.Part, "chunk": idx})
		acc := newChunk("C20", job.Part, idx)
		rng := common.NewRng(common.H(job.Seed, "C20", job.Part, idx))
		doSize := func(c c20Size) {
			acc.res.Evals++
			msg, str := runSize(c)
			acc.res.NonTrivial++
			acc.sigs.add(c)
			if msg != "" {
				acc.viol(msg, "size:"+c.Via+":"+verbOf(c.Fmt)+":"+magOf(c.V), c)
			} else if c.V > 5000 {
				acc.sample(map[string]interface{}{"case": c, "printed": str, "observed": "reads back to the true value within half a unit of the last digit; unit is the largest that fits"})
			}
		}
		doPct := func(c c20Pct) {
			acc.res.Evals++
			msg, str := runPct(c)
			if c.Tot > 0 {
				acc.res.NonTrivial++
				acc.sigs.add(c)
			}
			if msg != "" {
				acc.viol(msg, "pct:"+verbOf(c.Fmt)+":"+magOf(c.Tot), c)
			} else if c.Cur > 0 {
				acc.sample(map[string]interface{}{"case": c, "printed": str})
			}
		}
		doTime := func(c c20Time) {
			acc.res.Evals++
			msg, str := runTime(c)
			acc.res.NonTrivial++
			acc.sigs.add(c)
			if msg != "" {
				acc.viol(fmt.Sprintf("%s style %d of %v: %s", c.Via, c.Style, time.Duration(c.D), msg), fmt.Sprintf("time:%s:style%d", c.Via, c.Style), c)
			} else if c.D > int64(time.Hour) {
				acc.sample(map[string]interface{}{"case": c, "printed": str})
			}
		}
		doEwma := func(c c20Ewma) {
			acc.res.Evals++
			msg := runEwma(c)
			acc.res.NonTrivial++
			acc.sigs.add(c)
			if msg != "" {
				acc.viol(msg, fmt.Sprintf("ewma:%s:%s:wrap%d", c.Kind, c.Via, c.Wrap), c)
			} else if len(c.Samples) > 3 {
				acc.sample(map[string]interface{}{"case": c, "observed": "per-item durations fed to the average equal the conservation rule"})
			}
		}
		if job.Replay != "" {
			var rc struct {
				Replay struct {
					Part string          `json:"part"`
					Case json.RawMessage `json:"case"`
				} `json:"replay"`
			}
			readReplay(job.Replay, &rc)
			switch rc.Replay.Part {
			case "size":
				var c c20Size
				mustUnmarshal(rc.Replay.Case, &c)
				doSize(c)
			case "pct":
				var c c20Pct
				mustUnmarshal(rc.Replay.Case, &c)
				doPct(c)
			case "time":
				var c c20Time
				mustUnmarshal(rc.Replay.Case, &c)
				doTime(c)
			case "ewma":
				var c c20Ewma
				mustUnmarshal(rc.Replay.Case, &c)
				doEwma(c)
			}
			acc.finish(em)
			continue
		}
		switch job.Part {
		case "size":
			// chunk 0/1: the full lattice for each unit system; others random
			if idx < 2 {
				sys := []int{1024, 1000}[idx]
				for _, v := range sizeLattice(sys) {
					for _, f := range c20Verbs {
						doSize(c20Size{Sys: sys, V: v, Fmt: f, Via: "direct"})
					}
					for _, via := range []string{"total", "current", "counters", "inverted"} {
						tot := v
						if via != "total" && v < math.MaxInt64-10 {
							tot = v + 7
						}
						doSize(c20Size{Sys: sys, V: v, Fmt: rng.PickS("% d", "%.1f", "% .2f", "%d"), Via: via, Tot: tot})
						// the default format of each decorator, and the variants without a unit
						doSize(c20Size{Sys: sys, V: v, Fmt: "", Via: via, Tot: tot})
						doSize(c20Size{Sys: 0, V: v, Fmt: rng.PickS("", "%d", "%5d", "%d"), Via: via, Tot: tot})
					}
				}
				acc.res.Obs["size_lattice_exhaustive"] = 1
			} else {
				for k := 0; k < 20000; k++ {
					sys := rng.Pick(1024, 1000)
					v := randI64(rng)
					if v < 0 {
						v = -(v + 1)
					}
					f := c20Verbs[rng.Intn(len(c20Verbs))]
					if rng.Chance(1, 4) {
						f = fmt.Sprintf("%%%s.%d%s", rng.PickS("", " ", "-", "+", "0"), rng.Intn(10), rng.PickS("f", "e", "g", "E", "G"))
					}
					doSize(c20Size{Sys: sys, V: v, Fmt: f, Via: "direct"})
				}
			}
		case "pct":
			fmts := []string{"", "% d", "%d", "%.1f", "% .2f", "%.3f", "%e", "%g", "%.6f", "%s"}
			if idx == 0 {
				for _, t := range c08Bounds {
					if t <= 0 {
						continue
					}
					for _, c := range []int64{0, 1, t / 3, t / 2, t - 1, t} {
						if c < 0 || c > t {
							continue
						}
						for _, f := range fmts {
							doPct(c20Pct{Cur: c, Tot: t, Fmt: f})
						}
					}
				}
				doPct(c20Pct{Cur: 0, Tot: 0, Fmt: ""})
			} else {
				for k := 0; k < 20000; k++ {
					t := randI64(rng)
					if t <= 0 {
						t = 1 + rng.I64n(1<<62)
					}
					c := rng.I64n(t + 1)
					if rng.Chance(1, 6) {
						c = t
					}
					doPct(c20Pct{Cur: c, Tot: t, Fmt: fmts[rng.Intn(len(fmts))]})
				}
			}
		case "time":
			if idx == 0 {
				for st := 0; st < 4; st++ {
					for _, d := range carryDurs {
						doTime(c20Time{Style: st, D: int64(d), Via: "norm"})
						for _, off := range []time.Duration{200 * time.Millisecond, 500 * time.Millisecond} {
							doTime(c20Time{Style: st, D: int64(d + off), Via: "elapsed"})
						}
						if d > 0 {
							doTime(c20Time{Style: st, D: int64(d), Via: "ewmaeta", Cur: 3, Tot: 3 + 1 + int64(d%7)})
						}
					}
					doTime(c20Time{Style: st, D: int64(5 * time.Second), Via: "avgeta", Cur: 0, Tot: 10})
					doTime(c20Time{Style: st, D: int64(5 * time.Second), Via: "avgeta", Cur: 5, Tot: 10})
					doTime(c20Time{Style: st, D: int64(90 * time.Minute), Via: "avgeta", Cur: 1 << 20, Tot: 1 << 21})
					// fast streams: many items left, a fraction of a nanosecond per item
					for _, items := range []int64{1e6, 1e9, 1e10, 1 << 40} {
						for _, per := range []float64{0.3, 0.5, 1.4, 2.5, 17.49} {
							doTime(c20Time{Style: st, Via: "ewmaeta", Cur: 7, Tot: 7 + items, PerNs: per})
						}
						for _, per := range []float64{0.3, 0.5, 1.4, 2.5, 17.49} {
							// the average over the whole run: 1e10 items done in per x 1e10 ns
							doTime(c20Time{Style: st, D: int64(per * 1e10), Via: "avgeta", Cur: 1e10, Tot: 1e10 + items})
						}
					}
				}
				// the freeze probes wait a good second each: side by side
				type fz struct {
					k   string
					st  int
					msg string
				}
				var fzs []*fz
				for _, k := range []string{"elapsed", "avgspeed"} {
					for st := 0; st < 4; st++ {
						fzs = append(fzs, &fz{k: k, st: st})
						if k != "elapsed" {
							break
						}
					}
				}
				var fwg sync.WaitGroup
				for _, f := range fzs {
					fwg.Add(1)
					go func(f *fz) { defer fwg.Done(); f.msg = runFreeze(f.k, f.st) }(f)
				}
				fwg.Wait()
				for _, f := range fzs {
					acc.res.Evals++
					acc.res.NonTrivial++
					acc.sigs.add("freeze", f.k, f.st)
					if f.msg != "" {
						acc.viol(f.msg, "freeze:"+f.k, map[string]interface{}{"kind": f.k, "style": f.st})
					}
				}
			} else {
				for k := 0; k < 4000; k++ {
					d := time.Duration(rng.I64n(int64(60*time.Hour - time.Second)))
					if rng.Chance(1, 3) {
						d = carryDurs[rng.Intn(len(carryDurs))] + time.Duration(rng.Range(-2, 2))*time.Duration(rng.Pick(1, int(time.Millisecond), int(time.Second)))
						if d < 0 {
							d = 0
						}
						if d >= 60*time.Hour {
							d = 60*time.Hour - 1
						}
					}
					via := rng.PickS("norm", "norm", "ewmaeta")
					c := c20Time{Style: rng.Intn(4), D: int64(d), Via: via}
					if via == "ewmaeta" {
						c.Cur = rng.I64n(1000)
						c.Tot = c.Cur + 1 + rng.I64n(1000)
						if rng.Chance(1, 3) {
							// byte streams: up to 2^44 items left at up to a few ns each (under 60 h)
							items := int64(1) << uint(rng.Range(10, 44))
							items += rng.I64n(items)
							c.Tot = c.Cur + items
							c.PerNs = float64(d) / float64(items) * (0.5 + float64(rng.Intn(1000))/1000)
							if c.PerNs == 0 {
								c.PerNs = 0.25
							}
						}
					}
					doTime(c)
				}
			}
		case "ewma":
			for k := 0; k < 400; k++ {
				if k%8 == 7 {
					// public constructors, own estimators, constant rate
					c := c20Ewma{Kind: "const", Ctor: rng.PickS("ewmaeta", "ewmaspeed", "ewmaeta", "ewmaspeed", "tsma-eta", "tsma-speed"), Wrap: rng.Intn(3), Via: rng.PickS("direct", "bar", "barset"),
						Age: []float64{0, 0, 30, 1, 7.5, 100}[rng.Intn(6)], PerNs: rng.Pick64(1, 3, 1000, 12345, int64(time.Millisecond)),
						Unit: rng.Pick(1024, 1024, 1000, 0), SFmt: rng.PickS("% .2f", "% .2f", "", "%.1f")}
					if k%16 == 15 {
						// a varying rate instead: every sample costs PerNs or three times as much
						c.PerNs = rng.Pick64(1, 2, 5, 50) // 2^40 items at up to 150 ns each stay under 60 h
						c.HiNs = 3 * c.PerNs
						c.Age = []float64{0, 0, 0, 30, 1, 100}[rng.Intn(6)] // 0 = the constructors' default
						c.Ctor = rng.PickS("ewmaeta", "ewmaeta", "ewmaspeed", "tsma-eta")
						if strings.HasSuffix(c.Ctor, "speed") {
							c.Unit = 0
						}
					}
					for i, n := 0, rng.Range(40, 60); i < n; i++ { // well past any estimator's warm-up
						items := 1 + rng.I64n(1000)
						d := items * c.PerNs
						if c.HiNs > 0 && rng.Bool() {
							d = items * c.HiNs
						}
						if rng.Chance(1, 4) && d > 1 {
							d1 := 1 + rng.I64n(d-1)
							c.Samples = append(c.Samples, c20Sample{N: 0, D: d1})
							d -= d1
						}
						c.Samples = append(c.Samples, c20Sample{N: items, D: d})
					}
					doEwma(c)
					continue
				}
				c := c20Ewma{Kind: rng.PickS("speed", "eta", "median"), Wrap: rng.Intn(4), Via: rng.PickS("direct", "bar", "bar", "barset")}
				n := rng.Range(1, 12)
				for i := 0; i < n; i++ {
					s := c20Sample{N: int64(rng.Pick(0, 0, -1, 1, 1, 2, 10, 1<<20, rng.Intn(100000))), D: rng.Pick64(0, 0, 1, 1000, int64(time.Millisecond), rng.I64n(int64(time.Second)))}
					if c.Kind == "median" {
						s = c20Sample{N: int64(rng.Pick(1, 1, 2, 5, 0)), D: rng.I64n(int64(200 * time.Millisecond))}
					}
					c.Samples = append(c.Samples, s)
				}
				doEwma(c)
			}
		}
		acc.finish(em)
	}
}

func verbOf(f string) string {
	if f == "" {
		return "default"
	}
	return string(f[len(f)-1])
}

func magOf(v int64) string {
	switch {
	case v >= 1<<53:
		return "huge"
	case v >= 1<<40:
		return "T"
	case v >= 1<<30:
		return "G"
	case v >= 1<<20:
		return "M"
	case v >= 1<<10:
		return "K"
	}
	return "b"
}
