package main

// The scenario language of the schedule-family checks (DESIGN.md 2.1): a
// container configuration x bars x client programs x director choices, fully
// determined by its seed and re-executable from its JSON form.

import (
	"verif/harness/internal/common"
)

type DecSpec struct {
	Kind  string `json:"kind"`           // sync | plain | pct | counters | listener | ewma | elapsed | name | avgeta | avgspeed | ewmaeta | ewmaspeed | spindec | emptyname
	W     int    `json:"w,omitempty"`    // WC.W
	C     int    `json:"c,omitempty"`    // WC.C flags (DSyncWidth is added for kind sync)
	Wrap  string `json:"wrap,omitempty"` // "" | oncomplete | onabort | both | meta | deep
	Slow  int    `json:"slow,omitempty"` // microseconds slept inside the DecorFunc (0 = none, -n = n yields)
	Vary  int    `json:"vary,omitempty"` // how much the text width varies from frame to frame
	Depth int    `json:"depth,omitempty"`
	Sync  bool   `json:"sync,omitempty"`  // any kind: the decorator opts into width synchronisation
	Glyph int    `json:"glyph,omitempty"` // kind sync: 0 = ASCII text, 1 = two-column runes, 2 = letters with combining marks
}

func (d DecSpec) synced() bool { return d.Kind == "sync" || d.Sync }

type BarSpec struct {
	Total     int64     `json:"total"`
	Prio      *int      `json:"prio,omitempty"`
	Rm        bool      `json:"rm,omitempty"`
	NoPop     bool      `json:"nopop,omitempty"`
	After     int       `json:"after"`            // spec index of the predecessor, -1 = none
	DupID     int       `json:"dup_id,omitempty"` // > 0: the bar gets a user-chosen id that another bar has too
	Filler    string    `json:"filler"`
	FailAt    int       `json:"fail_at,omitempty"`     // k-th Fill call fails (1-based, 0 = never)
	Ext       int       `json:"ext,omitempty"`         // extender lines
	ExtRev    bool      `json:"ext_rev,omitempty"`     //
	ExtFailAt int       `json:"ext_fail_at,omitempty"` // k-th extender call fails
	ErrKind   int       `json:"err_kind,omitempty"`    // which error value a failing filler/extender returns: 0 custom, 1 io.EOF, 2 io.ErrUnexpectedEOF
	ExtFrag   bool      `json:"ext_frag,omitempty"`    // the extender ends its output with a fragment that is not newline-terminated (dropped by the library)
	Pre       []DecSpec `json:"pre,omitempty"`
	App       []DecSpec `json:"app,omitempty"`
	AddBy     int       `json:"add_by"` // -1 director before clients start; k = client k adds it
	Finish    string    `json:"finish"` // complete | abort | abortdrop | settotal | none
	BarWidth  int       `json:"bar_width,omitempty"`
	OnDone    bool      `json:"on_done,omitempty"`  // carries on-complete / on-abort decorations (C03)
	FinEwma   bool      `json:"fin_ewma,omitempty"` // the completing assignment is made with EwmaSetCurrent
}

type Op struct {
	K string `json:"k"`
	B int    `json:"b,omitempty"`
	N int64  `json:"n,omitempty"`
	F bool   `json:"f,omitempty"`
	S string `json:"s,omitempty"`
}

type Trigger struct {
	Point  string `json:"point"`
	Occ    int    `json:"occ"`    // fire at this occurrence (1-based)
	A      int    `json:"a"`      // required value of hook arg a (-1 = any)
	Action string `json:"action"` // cancel | shutdown | ttyfail
	Bar    int    `json:"bar"`    // -1 any
}

type Scenario struct {
	Fam       string    `json:"fam"`
	Seed      uint64    `json:"seed"`
	Mode      string    `json:"mode"` // auto | manual | none | pty
	RefreshUS int       `json:"refresh_us"`
	Q         int       `json:"q"` // -1 = library default
	Width     int       `json:"width"`
	PtyRows   int       `json:"pty_rows,omitempty"`
	PtyCols   int       `json:"pty_cols,omitempty"`
	Pop       bool      `json:"pop,omitempty"`
	Delay     bool      `json:"delay,omitempty"`
	Notifier  bool      `json:"notifier,omitempty"`
	UWG       bool      `json:"uwg,omitempty"`
	Bars      []BarSpec `json:"bars"`
	Clients   [][]Op    `json:"clients"`
	Waiters   [][]Op    `json:"waiters,omitempty"` // goroutines that are not joined before the scenario's ending (they block in Bar.Wait until then)
	End       string    `json:"end"`               // natural | cancel | shutdown
	Trig      *Trigger  `json:"trig,omitempty"`
	OutFailAt int       `json:"out_fail_at,omitempty"` // k-th output Write fails
	Policy    string    `json:"policy"`                // none | light | heavy | targeted
	Target    string    `json:"target,omitempty"`
	Late      bool      `json:"late,omitempty"`
	FinalRefr int       `json:"final_refreshes,omitempty"` // manual mode: refreshes issued after the finisher
	WaitEarly bool      `json:"wait_early,omitempty"`      // Wait is invoked while clients still run
	Anchor    bool      `json:"anchor,omitempty"`          // bar 0 is kept running until clients are done (keeps the wait group above zero)
	Chain     int       `json:"chain,omitempty"`           // C16: number of containers run back to back
	NilDbg    bool      `json:"nil_dbg,omitempty"`         // WithDebugOutput(nil): errors are reported to nobody (must still not panic)
	NilOut    bool      `json:"nil_out,omitempty"`         // mode none: WithOutput(nil) (documented: discards any output)
	NoK       bool      `json:"no_k,omitempty"`            // marker rows carry no render counter (frames may be byte-identical)
}

func (s *Scenario) nBars() int { return len(s.Bars) }

// ---------------------------------------------------------------- generator helpers

type gen struct {
	r  *common.Rng
	sc *Scenario
}

func intp(v int) *int { return &v }

func (g *gen) baseContainer(modes ...string) {
	r := g.r
	sc := g.sc
	sc.Mode = modes[r.Intn(len(modes))]
	sc.RefreshUS = r.Pick(50, 100, 300, 1000, 3000)
	sc.Q = -1
	sc.Width = 60
	sc.Policy = r.PickS("none", "light", "light", "heavy")
	sc.End = "natural"
}

func (g *gen) plainBar(total int64) BarSpec {
	return BarSpec{Total: total, After: -1, Filler: "bar", AddBy: -1, Finish: "complete"}
}

// randDecs draws 0..max decorators for one side; nsync of them synced.
func (g *gen) randDecs(max int, syncP int, slowP int) []DecSpec {
	r := g.r
	n := r.Intn(max + 1)
	var out []DecSpec
	for i := 0; i < n; i++ {
		d := DecSpec{Kind: r.PickS("plain", "pct", "counters", "name")}
		if r.Chance(syncP, 100) {
			d.Kind = "sync"
			d.C = r.Pick(0, 1, 2, 3) // indent right / extra space
			d.Vary = r.Intn(6)
		}
		d.W = r.Pick(0, 0, 3, 8)
		d.Wrap = r.PickS("", "", "", "oncomplete", "onabort", "both", "meta", "deep")
		if r.Chance(slowP, 100) {
			d.Slow = r.Pick(-3, 20, 100, 400)
		}
		out = append(out, d)
	}
	return out
}

// bar ops that move a bar forward without finishing it on their own
func (g *gen) workOps(b int, total int64, n int) []Op {
	r := g.r
	var ops []Op
	for i := 0; i < n; i++ {
		switch r.Intn(10) {
		case 0, 1, 2, 3:
			ops = append(ops, Op{K: "incr", B: b, N: 1 + r.I64n(common.ClampI64(total/int64(n+1), 1, 1<<20))})
		case 4:
			ops = append(ops, Op{K: "increment", B: b})
		case 5:
			ops = append(ops, Op{K: "ewmaincr", B: b, N: 1, F: false})
		case 6:
			ops = append(ops, Op{K: "get", B: b})
		case 7:
			ops = append(ops, Op{K: "refill", B: b, N: r.I64n(5)})
		case 8:
			ops = append(ops, Op{K: "yield", N: int64(r.Intn(4))})
		default:
			ops = append(ops, Op{K: "sleep", N: int64(r.Pick(10, 50, 200, 800))})
		}
	}
	return ops
}

func (g *gen) finishOp(b int, spec BarSpec) []Op {
	switch spec.Finish {
	case "abort":
		return []Op{{K: "abort", B: b, F: false}}
	case "abortdrop":
		return []Op{{K: "abort", B: b, F: true}}
	case "settotal":
		return []Op{{K: "settotal", B: b, N: -1, F: true}}
	case "none":
		return nil
	}
	if spec.Total > 0 {
		if spec.FinEwma {
			return []Op{{K: "ewmasetcur", B: b, N: spec.Total}}
		}
		return []Op{{K: "setcur", B: b, N: spec.Total}}
	}
	return []Op{{K: "settotal", B: b, N: 5, F: true}}
}
