package main

// C10: concurrent bar operations are atomic (linearizable w.r.t. the
// sequential rules) and the library is free of data races.
// Part "lin": recorded invoke/return histories of concurrent clients on shared
// bars, checked per bar by porcupine against the Appendix-B machine (after the
// terminal transition a mutator is non-deterministically applied or dropped).
// Parts "race*": the same scenario families executed by a worker built with
// -race; there the logical clock, the history recording and the hook callback
// are off (atomics and mutexes of the harness would add happens-before edges
// and hide the very races the detector is looking for).

import (
	"fmt"
	"strings"
	"time"

	"github.com/anishathalye/porcupine"

	"verif/harness/internal/common"
)

func init() { runners["C10"] = runSched }

func isBarOpKind(k string) bool {
	switch k {
	case "incr", "incrby", "increment", "ewmaincr", "ewmaincrby", "ewmaincrement", "setcur", "ewmasetcur", "settotal", "enable", "refill", "abort", "cur", "compl", "abrt":
		return true
	}
	return false
}

func c10Model(total int64) porcupine.Model {
	nm := porcupine.NondeterministicModel{
		Init: func() []interface{} { return []interface{}{newRef(total)} },
		Step: func(state, input, output interface{}) []interface{} {
			st := state.(refBar)
			op := input.(BOp)
			if op.isGetter() {
				if st.apply(op) == output.(int64) {
					return []interface{}{st}
				}
				return nil
			}
			if op.K == "refill" {
				return []interface{}{st} // not observable through the getters
			}
			nx := st
			nx.apply(op)
			if st.Done {
				// terminal already: the bar's goroutine may be gone, the mutator
				// is either applied or dropped
				if nx == st {
					return []interface{}{st}
				}
				return []interface{}{nx, st}
			}
			return []interface{}{nx}
		},
		Equal: func(a, b interface{}) bool { return a.(refBar) == b.(refBar) },
		DescribeOperation: func(in, out interface{}) string {
			return fmt.Sprintf("%v -> %v", in.(BOp), out)
		},
		DescribeState: func(s interface{}) string { return fmt.Sprintf("%+v", s.(refBar)) },
	}
	return nm.ToModel()
}

func (a *analysis) oracleC10() verdict {
	if v := a.commonInconclusive(); v != nil {
		return *v
	}
	if a.rr.stuckKind != "" {
		return inconclusive("scenario did not finish (%s)", a.rr.stuckKind)
	}
	sc := a.sc
	overlap := false
	for bi, spec := range sc.Bars {
		if a.rr.bar(bi) == nil {
			continue
		}
		var ops []porcupine.Operation
		var descr []string
		for _, o := range a.hist() {
			if o.Op.B != bi || o.Skipped || !isBarOpKind(o.Op.K) {
				continue
			}
			ret := o.Ret
			if ret == 0 {
				return violated("noreturn:"+o.Op.K, "operation %s on bar %d never returned", o.Op.K, bi)
			}
			in := BOp{K: o.Op.K, N: o.Op.N, F: o.Op.F}
			var out int64
			if in.isGetter() {
				fmt.Sscan(o.Res, &out)
			}
			ops = append(ops, porcupine.Operation{ClientId: o.Client + 1, Input: in, Call: o.Inv, Output: out, Return: ret})
			descr = append(descr, fmt.Sprintf("c%d [%d,%d] %v -> %s", o.Client, o.Inv, ret, in, o.Res))
		}
		for i := range ops {
			for j := i + 1; j < len(ops); j++ {
				if ops[i].ClientId != ops[j].ClientId && ops[i].Call < ops[j].Return && ops[j].Call < ops[i].Return {
					overlap = true
					a.ob("overlapping_operation_pairs", 1)
				}
			}
		}
		if len(ops) == 0 {
			continue
		}
		a.ob("porcupine_partitions_checked", 1)
		a.ob("porcupine_operations", len(ops))
		res, _ := porcupine.CheckOperationsVerbose(c10Model(spec.Total), ops, 60*time.Second)
		switch res {
		case porcupine.Illegal:
			v := violated("not-linearizable:"+c10Shape(ops), "history of %d operations on bar %d (created with total %d, %s container) has no sequential explanation by the documented rules", len(ops), bi, spec.Total, sc.Mode)
			v.Witness = strings.Join(descr, "\n")
			return v
		case porcupine.Unknown:
			return inconclusive("linearizability checker timed out on bar %d (%d operations)", bi, len(ops))
		}
	}
	return held(overlap)
}

// c10Shape: which operation kinds occur in the failing history (finding key).
func c10Shape(ops []porcupine.Operation) string {
	set := map[string]bool{}
	for _, o := range ops {
		k := o.Input.(BOp).K
		switch k {
		case "cur", "compl", "abrt":
			continue
		case "incrby", "increment", "ewmaincr", "ewmaincrby", "ewmaincrement":
			k = "incr"
		case "ewmasetcur":
			k = "setcur"
		}
		set[k] = true
	}
	var ks []string
	for _, k := range []string{"incr", "setcur", "settotal", "enable", "abort", "refill"} {
		if set[k] {
			ks = append(ks, k)
		}
	}
	return strings.Join(ks, "+")
}

func genC10(seed uint64, part string) *Scenario {
	r := common.NewRng(seed)
	if strings.HasPrefix(part, "race") {
		return genC10Race(seed, part)
	}
	sc := &Scenario{Fam: "C10/" + part, Seed: seed, Q: -1, Width: 100, End: "natural", Policy: r.PickS("none", "light", "heavy", "barop", "barop")}
	if sc.Policy == "barop" {
		// the bar's goroutine is held back after every operation it serves, so that
		// the clients' calls queue up and interleave at its channel
		sc.Policy, sc.Target = "targeted", "bar.op"
	}
	sc.Mode = r.PickS("auto", "auto", "manual", "none")
	sc.RefreshUS = r.Pick(50, 200, 1000)
	nb := r.Range(1, 3)
	for i := 0; i < nb; i++ {
		b := simpleBar(int64(r.Pick(0, -1, 3, 10, 10, 100)))
		b.Filler = "nop"
		if b.Total <= 0 {
			b.Finish = "settotal"
		}
		b.Rm = r.Chance(1, 4)
		sc.Bars = append(sc.Bars, b)
	}
	if r.Chance(1, 3) {
		// increments each followed by a read, racing one SetTotal(-1, true) on a bar of unknown total
		sc.Bars = []BarSpec{simpleBar(int64(r.Pick(0, -1)))}
		sc.Bars[0].Filler = "nop"
		sc.Bars[0].Finish = "settotal"
		long := r.Bool() // long streams: the assignment lands in the middle of the increments
		for c := 0; c < r.Range(2, 4); c++ {
			var ops []Op
			k := r.Range(4, 10)
			if long {
				k = r.Range(12, 30)
			}
			for i := 0; i < k; i++ {
				ops = append(ops, Op{K: r.PickS("increment", "incr"), B: 0, N: 1}, Op{K: "cur", B: 0})
			}
			sc.Clients = append(sc.Clients, ops)
		}
		var ops []Op
		for i := 0; i < r.Range(0, 6); i++ {
			ops = append(ops, Op{K: "yield", N: int64(r.Intn(3))})
		}
		if long {
			// keep pace with the incrementers for a while before assigning
			for i := 0; i < r.Range(2, 16); i++ {
				ops = append(ops, Op{K: "cur", B: 0})
			}
		}
		ops = append(ops, Op{K: "settotal", B: 0, N: -1, F: true}, Op{K: "cur", B: 0}, Op{K: "compl", B: 0})
		sc.Clients = append(sc.Clients, ops)
		return sc
	}
	if r.Chance(1, 5) {
		// concurrent assignments (SetCurrent / EwmaSetCurrent) on a bar without completion
		// trigger: the final value must be one that somebody assigned, consistent with the reads
		sc.Bars = []BarSpec{simpleBar(int64(r.Pick(0, -1)))}
		sc.Bars[0].Filler = "nop"
		sc.Bars[0].Finish = "settotal"
		sc.Bars[0].App = []DecSpec{{Kind: "ewma"}}
		for c := 0; c < r.Range(2, 5); c++ {
			var ops []Op
			for i := 0; i < r.Range(3, 8); i++ {
				ops = append(ops, Op{K: r.PickS("ewmasetcur", "ewmasetcur", "setcur"), B: 0, N: int64(1000*(c+1) + i)}, Op{K: "cur", B: 0})
			}
			sc.Clients = append(sc.Clients, ops)
		}
		return sc
	}
	nc := r.Range(2, 6)
	for c := 0; c < nc; c++ {
		var ops []Op
		k := r.Range(4, 12)
		for i := 0; i < k; i++ {
			bi := r.Intn(nb)
			t := sc.Bars[bi].Total
			switch r.Intn(16) {
			case 0, 1, 2, 3:
				// non-decreasing updates only: a negative increment after completion
				// un-completes the bar, which is outside the stated rules (C11)
				ops = append(ops, Op{K: "incr", B: bi, N: int64(r.Pick(1, 1, 2, 3, 5, 0))})
			case 4:
				ops = append(ops, Op{K: r.PickS("increment", "ewmaincrement"), B: bi})
			case 5:
				if t > 0 {
					ops = append(ops, Op{K: "setcur", B: bi, N: t + int64(r.Range(0, 2))})
				} else {
					ops = append(ops, Op{K: "incr", B: bi, N: 2})
				}
			case 6:
				ops = append(ops, Op{K: "settotal", B: bi, N: int64(r.Pick(-1, 0, 5, 20)), F: r.Chance(1, 3)})
			case 7:
				ops = append(ops, Op{K: "enable", B: bi})
			case 8:
				if r.Chance(1, 3) {
					ops = append(ops, Op{K: "abort", B: bi, F: r.Bool()})
				} else {
					ops = append(ops, Op{K: "incrby", B: bi, N: int64(r.Range(0, 4))})
				}
			case 9, 10, 11:
				ops = append(ops, Op{K: "cur", B: bi})
			case 12:
				ops = append(ops, Op{K: "compl", B: bi})
			case 13:
				ops = append(ops, Op{K: "abrt", B: bi})
			case 14:
				if sc.Mode == "manual" {
					ops = append(ops, Op{K: "refresh"})
				} else {
					ops = append(ops, Op{K: "yield", N: int64(r.Intn(3))})
				}
			default:
				if t > 0 {
					ops = append(ops, Op{K: "ewmaincr", B: bi, N: 1})
				} else {
					ops = append(ops, Op{K: "cur", B: bi})
				}
			}
		}
		// a quiescent read at the end of every client
		for bi := 0; bi < nb; bi++ {
			ops = append(ops, Op{K: "cur", B: bi}, Op{K: "compl", B: bi}, Op{K: "abrt", B: bi})
		}
		sc.Clients = append(sc.Clients, ops)
	}
	if sc.Mode == "manual" {
		sc.FinalRefr = 2
	}
	return sc
}

// genC10Race: getters hammered on bars that are rendering, shutting down and
// already shut down while later frames are drawn; concurrent Add, Write,
// traverse, priority updates; proxies with moving-average decorators.
func genC10Race(seed uint64, part string) *Scenario {
	r := common.NewRng(seed)
	pf := baseProfile
	pf.modes = []string{"auto", "auto", "auto", "manual"}
	pf.nBars = []int{1, 2, 3, 5, 8}
	pf.delayP = 0
	pf.policies = []string{"none"}
	pf.maxClients = 5
	pf.waitEarlyP = 0
	pf.endKinds = []string{"natural", "natural", "cancel", "shutdown"}
	pf.trigP = 0
	pf.late = true
	switch part {
	case "race-err":
		sc := genC15(seed, "filler")
		sc.Policy = "none"
		return raceify(sc, r)
	case "race-more":
		// the other scenario families under the race detector: queue-after
		// hand-overs, pop mode with late successors, several goroutines parked in
		// Progress.Wait with many shutdown listeners, and the terminal path (pty)
		var sc *Scenario
		switch r.Intn(4) {
		case 0:
			sc = genC17(seed, "mixed")
		case 1:
			sc = genC06(seed, "pop")
		case 2:
			sc = genC02Waiters(seed)
		default:
			sc = genC04(seed, "pty", "C04")
		}
		sc.Fam = "C10/race-more"
		sc.Policy = "none"
		sc.Late = true
		return raceify(sc, r)
	case "race-nq":
		pf.qKinds = []string{"zero", "one", "two"}
	}
	if part != "race-nq" && r.Chance(1, 4) {
		// moving-average decorators of the library (their EwmaUpdate touches plain
		// fields) fed through every Ewma entry point, assignments included, while
		// frames are drawn; bars without completion trigger, so that assignments in
		// any order are harmless
		sc := &Scenario{Fam: "C10/" + part, Seed: seed, Q: -1, Width: 100, End: "natural", Policy: "none", Mode: "auto", RefreshUS: r.Pick(50, 200, 1000), Late: true}
		nb := r.Range(1, 3)
		for i := 0; i < nb; i++ {
			b := simpleBar(int64(r.Pick(0, -1)))
			b.Filler = r.PickS("nop", "bar")
			b.Finish = "settotal"
			b.App = []DecSpec{{Kind: r.PickS("ewmaeta", "ewmaspeed"), W: r.Pick(0, 3)}}
			if r.Bool() {
				b.Pre = []DecSpec{{Kind: r.PickS("ewmaeta", "ewmaspeed"), W: r.Pick(0, 8), Wrap: r.PickS("", "oncomplete", "meta")}}
			}
			sc.Bars = append(sc.Bars, b)
		}
		for c := 0; c < r.Range(2, 4); c++ {
			var ops []Op
			for i := 0; i < r.Range(6, 20); i++ {
				bi := r.Intn(nb)
				switch r.Intn(6) {
				case 0, 1, 2:
					ops = append(ops, Op{K: "ewmasetcur", B: bi, N: int64(1000*(c+1) + i)})
				case 3:
					ops = append(ops, Op{K: r.PickS("ewmaincr", "ewmaincrement"), B: bi, N: 1})
				case 4:
					ops = append(ops, Op{K: "cur", B: bi})
				default:
					ops = append(ops, Op{K: "sleep", N: int64(r.Pick(20, 100, 300))})
				}
			}
			sc.Clients = append(sc.Clients, ops)
		}
		return sc
	}
	sc := genMixed(seed, "C10/"+part, pf)
	return raceify(sc, r)
}

// raceify: waits become sleeps (hooks are off) and every client ends with a
// tail of getters that outlives the bars.
func raceify(sc *Scenario, r *common.Rng) *Scenario {
	sc.Trig = nil
	n := len(sc.Bars)
	for i := range sc.Bars {
		if r.Chance(1, 3) {
			sc.Bars[i].App = append(sc.Bars[i].App, DecSpec{Kind: "ewma"})
		}
		if r.Chance(1, 3) {
			sc.Bars[i].Pre = append(sc.Bars[i].Pre, DecSpec{Kind: "elapsed"})
		}
		if r.Chance(1, 2) {
			sc.Bars[i].App = append(sc.Bars[i].App, DecSpec{Kind: r.PickS("avgeta", "avgspeed")})
		}
		if r.Chance(1, 2) {
			// byte-unit formatters of several bars run at the same time, each in its bar's goroutine
			sc.Bars[i].Pre = append(sc.Bars[i].Pre, DecSpec{Kind: r.PickS("kib", "kb", "speedkib", "pct", "counters")})
		}
	}
	for ci := range sc.Clients {
		var ops []Op
		for _, o := range sc.Clients[ci] {
			switch o.K {
			case "waitcycles", "rw":
				ops = append(ops, Op{K: "sleep", N: int64(r.Pick(100, 400, 1500))})
				if o.K == "rw" {
					ops = append(ops, Op{K: "refresh"})
				}
			default:
				ops = append(ops, o)
			}
		}
		if n > 0 {
			// finish some bars from inside the client, then keep reading them while
			// later frames are drawn and after they shut down
			for k := 0; k < r.Range(1, 3); k++ {
				bi := r.Intn(n)
				if sc.Bars[bi].AddBy == -1 || sc.Bars[bi].AddBy == ci {
					ops = append(ops, (&gen{r: r, sc: sc}).finishOp(bi, sc.Bars[bi])...)
				}
			}
			for k := 0; k < r.Range(6, 30); k++ {
				bi := r.Intn(n)
				ops = append(ops, Op{K: r.PickS("get", "get", "compl", "cur", "abrt", "barwait", "setprio", "traverse", "proxyread", "avgadjust", "avgadjust"), B: bi, N: int64(r.Intn(8))})
				if r.Chance(1, 3) {
					ops = append(ops, Op{K: "sleep", N: int64(r.Pick(20, 100, 500))})
				}
			}
		}
		sc.Clients[ci] = ops
	}
	// "barwait" on a bar nobody finishes would block its client until the director's finisher runs:
	// the director finishes bars only after the clients are done, so drop barwait unless the scenario ends by cancel
	if sc.End == "natural" {
		for ci := range sc.Clients {
			var keep []Op
			for _, o := range sc.Clients[ci] {
				if o.K != "barwait" {
					keep = append(keep, o)
				}
			}
			sc.Clients[ci] = keep
		}
	} else {
		// cancellation comes from the director after the clients: same problem
		for ci := range sc.Clients {
			var keep []Op
			for _, o := range sc.Clients[ci] {
				if o.K != "barwait" {
					keep = append(keep, o)
				}
			}
			sc.Clients[ci] = keep
		}
	}
	return sc
}

// oracleC10Race: in the race tier the deciding oracle is the race detector
// (its reports are collected by the driver from the worker's race log); here
// only liveness of the scenario itself is reported.
func (a *analysis) oracleC10Race() verdict {
	if a.rr.stuckKind == "watchdog" {
		return inconclusive("watchdog (race build is slow)")
	}
	if a.rr.stuckKind != "" {
		return inconclusive("scenario did not finish (%s) in the race build; C01 owns hangs", a.rr.stuckKind)
	}
	ops := 0
	for _, c := range a.sc.Clients {
		ops += len(c)
	}
	return held(len(a.sc.Bars) > 0 && (len(a.sc.Clients)+len(a.sc.Waiters) >= 2 || ops >= 6))
}
