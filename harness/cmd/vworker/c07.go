package main

// C07: a rendered row never exceeds its width, and rendering terminates.
// Four parts: direct BarFiller.Fill calls for composed bar styles ("fill"),
// spinner fillers ("spin"), built-in decorators' reported widths ("decor"),
// and whole rows through a manually refreshed container ("row").
// Widths are computed with the harness' own table (vterm.RuneWidth), never
// with the library's width function.

import (
	"bytes"
	"encoding/json"
	"fmt"
	"io"
	"regexp"
	"strings"
	"sync"
	"time"
	"unicode/utf8"

	mpb "github.com/vbauerster/mpb/v8"
	"github.com/vbauerster/mpb/v8/decor"

	"verif/harness/internal/common"
	"verif/harness/internal/vterm"
)

func init() { runners["C07"] = runC07 }

var c07Comps = []string{"", "=", "#", "-", ">", "\u306e", "\u3060", "\u3064", "\u200b", "\u0301", "ab", "=>", "\u306e\u3060", "a\u0301", "\u3010"}

type c07Fill struct {
	Kind      string   `json:"kind"` // bar | spinner
	L         string   `json:"l"`
	R         string   `json:"r"`
	Refiller  string   `json:"refiller"`
	Filler    string   `json:"filler"`
	Padding   string   `json:"padding"`
	Tips      []string `json:"tips"`
	Rev       bool     `json:"rev"`
	TipOnC    bool     `json:"tip_on_complete"`
	Pos       int      `json:"pos"` // spinner: 0 centre, 1 left, 2 right
	Total     int64    `json:"total"`
	Current   int64    `json:"current"`
	Refill    int64    `json:"refill"`
	Avail     int      `json:"avail"`
	Req       int      `json:"req"`
	Completed bool     `json:"completed"`
	Aborted   bool     `json:"aborted"`
	Calls     int      `json:"calls"`
	Meta      int      `json:"meta,omitempty"` // bit i: component i (lbound, rbound, filler, refiller, padding, tip; spinner: any) is wrapped in SGR codes by a meta function
}

func c07SGR(s string) string { return "\x1b[31;1m" + s + "\x1b[0m" }

func (c c07Fill) build() mpb.BarFiller {
	if c.Kind == "spinner" {
		s := mpb.SpinnerStyle(c.Tips...)
		if c.Meta != 0 {
			s = s.Meta(c07SGR)
		}
		switch c.Pos {
		case 1:
			s = s.PositionLeft()
		case 2:
			s = s.PositionRight()
		}
		return s.Build()
	}
	b := mpb.BarStyle().Lbound(c.L).Rbound(c.R).Refiller(c.Refiller).Filler(c.Filler).Padding(c.Padding).Tip(c.Tips...)
	if c.Rev {
		b = b.Reverse()
	}
	if c.TipOnC {
		b = b.TipOnComplete()
	}
	for i, set := range []func(func(string) string) mpb.BarStyleComposer{b.LboundMeta, b.RboundMeta, b.FillerMeta, b.RefillerMeta, b.PaddingMeta, b.TipMeta} {
		if c.Meta&(1<<uint(i)) != 0 {
			b = set(c07SGR)
		}
	}
	return b.Build()
}

func allotted(req, avail int) int {
	if req < 1 || req > avail {
		return avail
	}
	return req
}

// checkC07Fill returns "" or a violation message and its key.
func checkC07Fill(c c07Fill, g *caseGuard) (msg, key string) {
	var outs []string
	var ferr error
	p := g.run(func() interface{} { return c }, func() {
		f := c.build()
		for k := 0; k < c.Calls; k++ {
			var buf bytes.Buffer
			st := decor.Statistics{AvailableWidth: c.Avail, RequestedWidth: c.Req, Total: c.Total, Current: c.Current, Refill: c.Refill, Completed: c.Completed, Aborted: c.Aborted}
			if err := f.Fill(&buf, st); err != nil {
				ferr = err
				return
			}
			outs = append(outs, buf.String())
		}
	})
	shape := c07Shape(c)
	if p != nil {
		return fmt.Sprintf("panic in Fill: %v", p), "panic:" + shape
	}
	if ferr != nil {
		return fmt.Sprintf("Fill returned error %v writing to a bytes.Buffer", ferr), "err:" + shape
	}
	W := allotted(c.Req, c.Avail)
	for k, out := range outs {
		if !utf8.ValidString(out) {
			return fmt.Sprintf("call %d: invalid UTF-8 %q", k, out), "utf8:" + shape
		}
		w := vterm.StringWidth(out)
		if c.Kind == "spinner" && len(c.Tips) == 0 {
			// the library's default frames (whatever they are): the row is filled or left empty
			if w != W && out != "" {
				return fmt.Sprintf("call %d: default spinner row has width %d, allotted %d: %q", k, w, W, out), "spin-width:spinner/default"
			}
			continue
		}
		if c.Kind == "spinner" {
			fw := vterm.StringWidth(c.Tips[k%len(c.Tips)])
			if W < fw {
				if out != "" {
					return fmt.Sprintf("call %d: spinner frame of width %d does not fit %d but %q was written", k, fw, W, out), "spin-overflow:" + shape
				}
			} else if w != W {
				return fmt.Sprintf("call %d: spinner row has width %d, allotted %d: %q", k, w, W, out), "spin-width:" + shape
			}
			continue
		}
		bw := vterm.StringWidth(c.L) + vterm.StringWidth(c.R)
		if W-bw < 0 {
			if w > W {
				return fmt.Sprintf("call %d: brackets (%d) do not fit %d but %q (width %d) was written", k, bw, W, out, w), "bar-overflow:" + shape
			}
			continue
		}
		if w != W {
			kind := "bar-underfull:"
			if w > W {
				kind = "bar-overflow:"
			}
			return fmt.Sprintf("call %d: bar occupies %d cells, allotted %d: %q", k, w, W, out), kind + shape
		}
	}
	return "", ""
}

func widthClass(s string) string {
	if s == "" {
		return "e"
	}
	w := vterm.StringWidth(s)
	switch {
	case w == 0:
		return "z"
	case w == 1:
		return "1"
	case w == 2 && utf8.RuneCountInString(s) == 1:
		return "w"
	}
	return "m"
}

// c07Shape: the class of the style (which components are empty / zero-width /
// wide / multi), the finding key's input-class part.
func c07Shape(c c07Fill) string {
	if c.Kind == "spinner" {
		cl := ""
		for _, t := range c.Tips {
			cl += widthClass(t)
		}
		return "spinner/" + cl
	}
	tips := ""
	for _, t := range c.Tips {
		tips += widthClass(t)
	}
	small := ""
	if allotted(c.Req, c.Avail)-vterm.StringWidth(c.L)-vterm.StringWidth(c.R) < 2 {
		small = "/tiny"
	}
	ref := ""
	if c.Refill != 0 {
		ref = "/refill"
	}
	return fmt.Sprintf("bar/f%s.p%s.r%s.t%s%s%s", widthClass(c.Filler), widthClass(c.Padding), widthClass(c.Refiller), tips, ref, small)
}

func genC07Fill(r *common.Rng, grid bool, gi int) c07Fill {
	pick := func() string { return c07Comps[r.Intn(len(c07Comps))] }
	c := c07Fill{Kind: "bar", Calls: 1 + r.Intn(3)}
	c.L, c.R = r.PickS("[", "", "【", "<<", "|"), r.PickS("]", "", "】", ">>", "|")
	c.Filler, c.Padding, c.Refiller = pick(), pick(), pick()
	nt := 1 + r.Intn(3)
	for i := 0; i < nt; i++ {
		c.Tips = append(c.Tips, pick())
	}
	c.Rev, c.TipOnC = r.Chance(1, 4), r.Chance(1, 4)
	c.Total = randI64(r)
	switch r.Intn(5) {
	case 0:
		c.Current = randI64(r)
	case 1:
		c.Current = c.Total
	default:
		if c.Total > 0 {
			c.Current = r.I64n(c.Total + 1)
		}
	}
	if r.Chance(1, 3) && c.Current > 0 {
		c.Refill = r.I64n(c.Current + 1)
	}
	c.Completed = c.Total > 0 && c.Current == c.Total && r.Chance(4, 5)
	c.Aborted = !c.Completed && r.Chance(1, 10)
	if grid {
		c.Avail = gi % 41
	} else {
		c.Avail = r.Pick(r.Intn(8), r.Intn(41), r.Intn(301), 80)
	}
	if r.Chance(1, 3) {
		c.Req = r.Range(-1, 400)
	}
	if r.Chance(1, 4) {
		c.Meta = 1 + r.Intn(63)
	}
	return c
}

func genC07Spin(r *common.Rng) c07Fill {
	c := c07Fill{Kind: "spinner", Calls: 1 + r.Intn(4), Pos: r.Intn(3)}
	n := 1 + r.Intn(4)
	for i := 0; i < n; i++ {
		c.Tips = append(c.Tips, r.PickS("|", "/", "-", "\u306e", "ab", "\u200b", "a\u0301", "\u306e\u3060", "\u280b", "=>"))
	}
	c.Avail = r.Pick(r.Intn(6), r.Intn(41), r.Intn(301))
	if r.Chance(1, 3) {
		c.Req = r.Range(-1, 400)
	}
	c.Total, c.Current = 100, int64(r.Intn(101))
	if r.Chance(1, 3) {
		c.Meta = 1
	}
	if r.Chance(1, 8) {
		c.Tips = nil // SpinnerStyle() without frames: the default ones
	}
	return c
}

// ---------------------------------------------------------------- decorators

type c07Dec struct {
	Ctor   string `json:"ctor"`
	Text   string `json:"text"`
	W      int    `json:"w"`
	C      int    `json:"c"`
	Wrap   string `json:"wrap"`
	SGR    bool   `json:"sgr"`
	Total  int64  `json:"total"`
	Cur    int64  `json:"current"`
	Compl  bool   `json:"completed"`
	Abort  bool   `json:"aborted"`
	SyncUp int    `json:"sync_up"` // what the column maximum adds to this decorator's own width
}

var c07Ctors = []string{"name", "any", "counters", "countersKiB", "countersKB", "total", "current", "inverted", "percentage", "newpercentage", "elapsed", "ewmaeta", "avgeta", "ewmaspeed", "avgspeed", "spinner", "spinner0"}
var c07Texts = []string{"", "a", "name", "\u4e16\u754c", "a\u0301b", "x y", "\u65e5\u672c\u8a9e\u30c6\u30ad\u30b9\u30c8", "0123456789012345678901234567890123456789"}

func mkDecor(d c07Dec) decor.Decorator {
	wc := decor.WC{W: d.W, C: d.C}
	var x decor.Decorator
	start := time.Now().Add(-90 * time.Second)
	switch d.Ctor {
	case "name":
		x = decor.Name(d.Text, wc)
	case "any":
		t := d.Text
		x = decor.Any(func(s decor.Statistics) string { return fmt.Sprintf("%s%d", t, s.Current%10) }, wc)
	case "counters":
		x = decor.CountersNoUnit("%d / %d", wc)
	case "countersKiB":
		x = decor.CountersKibiByte("% .1f / % .1f", wc)
	case "countersKB":
		x = decor.CountersKiloByte("%d/%d", wc)
	case "total":
		x = decor.TotalKibiByte("% d", wc)
	case "current":
		x = decor.CurrentKiloByte("%.2f", wc)
	case "inverted":
		x = decor.InvertedCurrentNoUnit("%d", wc)
	case "percentage":
		x = decor.Percentage(wc)
	case "newpercentage":
		x = decor.NewPercentage("%.2f", wc)
	case "elapsed":
		x = decor.NewElapsed(decor.TimeStyle(d.W&3), start, wc)
	case "ewmaeta":
		e := decor.EwmaETA(decor.TimeStyle(d.W&3), 30, wc)
		e.(decor.EwmaDecorator).EwmaUpdate(10, 30*time.Millisecond)
		x = e
	case "avgeta":
		x = decor.NewAverageETA(decor.TimeStyle(d.W&3), start, nil, wc)
	case "ewmaspeed":
		e := decor.EwmaSpeed(decor.SizeB1024(0), "% .2f", 30, wc)
		e.(decor.EwmaDecorator).EwmaUpdate(1000, 30*time.Millisecond)
		x = e
	case "avgspeed":
		x = decor.NewAverageSpeed(decor.SizeB1000(0), "% .1f", start, wc)
	case "spinner":
		x = decor.Spinner([]string{"|", "\u306e", "ab"}, wc)
	case "spinner0":
		x = decor.Spinner(nil, wc) // the default frames
	default:
		x = decor.Name(d.Text, wc)
	}
	sgr := func(s string) string { return "\x1b[31m" + s + "\x1b[0m" }
	switch d.Wrap {
	case "oncomplete":
		x = decor.OnComplete(x, "done:"+d.Text)
	case "onabort":
		x = decor.OnAbort(x, "aborted")
	case "both":
		x = decor.OnCompleteOrOnAbort(x, "fin")
	case "meta":
		x = decor.Meta(x, sgr)
	case "oncompletemeta":
		x = decor.OnCompleteMeta(x, sgr)
	case "onabortmeta":
		x = decor.OnAbortMeta(x, sgr)
	case "bothmeta":
		x = decor.OnCompleteMetaOrOnAbortMeta(x, sgr)
	case "deep":
		x = decor.OnComplete(decor.Meta(decor.OnAbort(x, "ab"), sgr), "\u5b8c\u4e86")
	}
	return x
}

func stripSGR(s string) string {
	var sb strings.Builder
	for i := 0; i < len(s); {
		if s[i] == 0x1b && i+1 < len(s) && s[i+1] == '[' {
			j := i + 2
			for j < len(s) && (s[j] < 0x40 || s[j] > 0x7e) {
				j++
			}
			i = j + 1
			continue
		}
		sb.WriteByte(s[i])
		i++
	}
	return sb.String()
}

// decorOnce calls Decor, playing the width distributor if the decorator syncs.
func decorOnce(x decor.Decorator, st decor.Statistics, syncUp int) (string, int) {
	if ch, ok := x.Sync(); ok {
		done := make(chan struct{})
		go func() {
			w := <-ch
			ch <- w + syncUp
			close(done)
		}()
		s, w := x.Decor(st)
		<-done
		return s, w
	}
	return x.Decor(st)
}

func checkC07Dec(d c07Dec, g *caseGuard) (msg, key string) {
	var str string
	var w int
	p := g.run(func() interface{} { return d }, func() {
		x := mkDecor(d)
		st := decor.Statistics{AvailableWidth: 80, Total: d.Total, Current: d.Cur, Completed: d.Compl, Aborted: d.Abort}
		for k := 0; k < 2; k++ { // twice: stateful decorators (elapsed freeze, spinner)
			str, w = decorOnce(x, st, d.SyncUp)
			if dw := vterm.StringWidth(stripSGR(str)); dw != w {
				msg = fmt.Sprintf("decorator %s/%s WC{W:%d,C:%d} returned width %d for %q whose display width is %d", d.Ctor, d.Wrap, d.W, d.C, w, str, dw)
				return
			}
			if !utf8.ValidString(str) {
				msg = fmt.Sprintf("decorator %s returned invalid UTF-8 %q", d.Ctor, str)
				return
			}
		}
	})
	if p != nil {
		return fmt.Sprintf("panic in Decor: %v", p), "dec-panic:" + d.Ctor
	}
	if msg != "" {
		return msg, "dec-width:" + d.Ctor + "/" + d.Wrap
	}
	return "", ""
}

func genC07Dec(r *common.Rng) c07Dec {
	d := c07Dec{Ctor: c07Ctors[r.Intn(len(c07Ctors))], Text: c07Texts[r.Intn(len(c07Texts))]}
	d.W = r.Pick(0, 0, r.Range(-3, 12), r.Range(0, 40))
	d.C = r.Intn(8)
	d.Wrap = r.PickS("", "", "oncomplete", "onabort", "both", "meta", "oncompletemeta", "onabortmeta", "bothmeta", "deep")
	d.Total = r.I64n(1 << uint(1+r.Intn(50)))
	if d.Total > 0 {
		d.Cur = r.I64n(d.Total + 1)
	}
	d.Compl = d.Total > 0 && d.Cur == d.Total || r.Chance(1, 8)
	if d.Compl {
		d.Cur = d.Total
	}
	d.Abort = !d.Compl && r.Chance(1, 6)
	d.SyncUp = r.Pick(0, 0, 1, 5)
	return d
}

// ---------------------------------------------------------------- whole rows

type c07Row struct {
	Width   int      `json:"container_width"`
	BarW    int      `json:"bar_width"`
	Trim    bool     `json:"trim"`
	Filler  c07Fill  `json:"filler"`
	Pre     []c07Dec `json:"prepend"`
	App     []c07Dec `json:"append"`
	Total   int64    `json:"total"`
	Current int64    `json:"current"`
}

// truncate mirrors the documented behaviour: cut to the remaining width with
// an ellipsis (by the harness' width table).
func truncateEll(s string, w int) string {
	if vterm.StringWidth(s) <= w {
		return s
	}
	w -= 1 // the ellipsis
	var sb strings.Builder
	acc := 0
	rs := []rune(s)
	for i := 0; i < len(rs); {
		// a cluster = base rune + following zero-width runes
		j := i + 1
		for j < len(rs) && vterm.RuneWidth(rs[j]) == 0 {
			j++
		}
		cw := 0
		for _, x := range rs[i:j] {
			cw += vterm.RuneWidth(x)
		}
		if acc+cw > w {
			break
		}
		sb.WriteString(string(rs[i:j]))
		acc += cw
		i = j
	}
	return sb.String() + "…"
}

func genC07Row(r *common.Rng) c07Row {
	row := c07Row{Width: r.Pick(r.Intn(12), r.Intn(60), r.Intn(301), 80)}
	if r.Chance(1, 3) {
		row.BarW = r.Range(-1, 120)
	}
	row.Trim = r.Chance(1, 3)
	if r.Chance(1, 5) {
		row.Filler = genC07Spin(r)
	} else {
		row.Filler = genC07Fill(r, false, 0)
		// keep the filler well-formed here: termination of odd styles is the "fill" part's business
		if vterm.StringWidth(row.Filler.Filler) == 0 {
			row.Filler.Filler = "="
		}
		if vterm.StringWidth(row.Filler.Padding) == 0 {
			row.Filler.Padding = "-"
		}
		if vterm.StringWidth(row.Filler.Refiller) == 0 {
			row.Filler.Refiller = "+"
		}
	}
	row.Total = 1 + r.I64n(1000)
	row.Current = r.I64n(row.Total)
	mk := func() c07Dec {
		d := c07Dec{Ctor: r.PickS("name", "name", "counters", "percentage", "countersKB"), Text: c07Texts[r.Intn(len(c07Texts))]}
		d.W = r.Pick(0, 0, r.Range(0, 12), r.Range(0, 40))
		d.C = r.Intn(4) // no sync: one bar only (sync is C12's subject)
		d.Wrap = r.PickS("", "", "meta", "oncomplete", "onabort")
		return d
	}
	for i, n := 0, r.Intn(5); i < n; i++ {
		row.Pre = append(row.Pre, mk())
	}
	for i, n := 0, r.Intn(5); i < n; i++ {
		row.App = append(row.App, mk())
	}
	return row
}

var cuuRe = regexp.MustCompile(`\x1b\[[0-9]+[AF]\x1b\[0?J`)

// c07DefaultWidth: the width the library gives a row when the output is not a
// terminal and no width was requested. It is not documented, so it is measured
// (a bare bar in such a container, once per process) rather than assumed.
var c07DefaultWidth = sync.OnceValue(func() int {
	var buf bytes.Buffer
	ch := make(chan interface{})
	pr := mpb.New(mpb.WithOutput(&buf), mpb.WithManualRefresh(ch))
	bar := pr.MustAdd(10, mpb.BarStyle().Build())
	n0 := hk.counts[hpRenderEnd].Load()
	ch <- time.Now()
	waitCount(hpRenderEnd, n0+1, 10*time.Second)
	bar.Abort(false)
	pr.Wait()
	out := buf.String()
	if loc := cuuRe.FindStringIndex(out); loc != nil {
		out = out[:loc[0]]
	}
	if i := strings.IndexByte(out, '\n'); i > 0 {
		return vterm.StringWidth(stripSGR(out[:i]))
	}
	return 0
})

func checkC07Row(row c07Row, g *caseGuard) (msg, key string) {
	tw := row.Width
	if tw <= 0 {
		if tw = c07DefaultWidth(); tw <= 0 {
			return "", "" // could not be measured: not decided
		}
	}
	var out string
	var timedOut bool
	p := g.run(func() interface{} { return row }, func() {
		var buf bytes.Buffer
		ch := make(chan interface{})
		pr := mpb.New(mpb.WithOutput(&buf), mpb.WithWidth(row.Width), mpb.WithManualRefresh(ch))
		var pre, app []decor.Decorator
		for _, d := range row.Pre {
			pre = append(pre, mkDecor(d))
		}
		for _, d := range row.App {
			app = append(app, mkDecor(d))
		}
		opts := []mpb.BarOption{mpb.PrependDecorators(pre...), mpb.AppendDecorators(app...)}
		if row.BarW != 0 {
			opts = append(opts, mpb.BarWidth(row.BarW))
		}
		if row.Trim {
			opts = append(opts, mpb.BarFillerTrim())
		}
		filler := row.Filler.build()
		if (row.Total+row.Current)%2 == 0 {
			// the same filler handed over as a BarFillerFunc, as user code often does
			inner := filler
			filler = mpb.BarFillerFunc(func(w io.Writer, st decor.Statistics) error { return inner.Fill(w, st) })
		}
		bar := pr.MustAdd(row.Total, filler, opts...)
		bar.SetCurrent(row.Current)
		n0 := hk.counts[hpRenderEnd].Load()
		ch <- time.Now()
		if !waitCount(hpRenderEnd, n0+1, 10*time.Second) {
			timedOut = true
		}
		bar.Abort(false)
		pr.Wait()
		out = buf.String()
	})
	if p != nil {
		return fmt.Sprintf("panic: %v", p), "row-panic"
	}
	if timedOut {
		return "", "" // not decided (the fill part owns termination)
	}
	// first frame = up to the first cursor sequence
	if loc := cuuRe.FindStringIndex(out); loc != nil {
		out = out[:loc[0]]
	}
	if !strings.HasSuffix(out, "\n") || strings.Count(out, "\n") != 1 {
		return fmt.Sprintf("expected exactly one row, got %q", out), "row-shape"
	}
	line := strings.TrimSuffix(out, "\n")
	if w := vterm.StringWidth(stripSGR(line)); w > tw {
		return fmt.Sprintf("row width %d exceeds terminal width %d: %q", w, tw, line), "row-overflow"
	}
	// exact layout: simulate the documented decorator placement with twin decorators
	avail := tw
	st := decor.Statistics{AvailableWidth: tw, RequestedWidth: row.Width, Total: row.Total, Current: row.Current}
	if row.BarW != 0 {
		st.RequestedWidth = row.BarW
	}
	side := func(ds []c07Dec) string {
		var sb strings.Builder
		for _, d := range ds {
			s, w := mkDecor(d).Decor(st)
			if avail-w >= 0 {
				sb.WriteString(s)
				avail -= w
			} else if avail > 0 {
				sb.WriteString(truncateEll(stripSGR(s), avail))
				avail = 0
			}
		}
		return sb.String()
	}
	prefix := side(row.Pre)
	suffix := side(row.App)
	spaces := 0
	if !row.Trim && avail >= 2 {
		spaces = 1
		avail -= 2
	}
	bodyW := allotted(st.RequestedWidth, avail)
	if !strings.HasPrefix(line, prefix) || !strings.HasSuffix(line, suffix) || len(line) < len(prefix)+len(suffix) {
		return fmt.Sprintf("decorator part differs: row %q, expected prefix %q and suffix %q (terminal width %d)", line, prefix, suffix, tw), "row-decor-layout"
	}
	mid := line[len(prefix) : len(line)-len(suffix)]
	if spaces == 1 {
		if len(mid) < 2 || mid[0] != ' ' || mid[len(mid)-1] != ' ' {
			return fmt.Sprintf("expected the body framed by two spaces, middle part is %q in row %q", mid, line), "row-spacing"
		}
		mid = mid[1 : len(mid)-1]
	}
	mw := vterm.StringWidth(mid)
	f := row.Filler
	exp := bodyW
	if f.Kind == "spinner" && len(f.Tips) == 0 {
		if mw == 0 {
			exp = 0 // default frames: filled or left empty
		}
	} else if f.Kind == "spinner" {
		if bodyW < vterm.StringWidth(f.Tips[0]) {
			exp = 0
		}
	} else if bodyW-vterm.StringWidth(f.L)-vterm.StringWidth(f.R) < 0 {
		exp = 0
	}
	if mw != exp {
		return fmt.Sprintf("body occupies %d cells, allotted %d (terminal %d, decorators took %d): %q", mw, exp, tw, tw-avail, line), "row-body-width"
	}
	return "", ""
}

// ---------------------------------------------------------------- rows of bars that were clipped by the height

type c07Clip struct {
	Width int `json:"width"`
	Bars  int `json:"bars"`
	Drop  int `json:"drop"` // how many of the bottom bars complete and leave
	Pre   int `json:"cycles_before"`
	Decs  int `json:"decorators"`
}

// checkC07Clip: more bars than the frame height (non-terminal: height = width),
// rendered for a few cycles, then the bars below leave so that clipped ones
// become visible; every emitted row must still fit the width.
func checkC07Clip(c c07Clip, g *caseGuard) (msg, key string) {
	var out string
	p := g.run(func() interface{} { return c }, func() {
		var buf bytes.Buffer
		ch := make(chan interface{})
		pr := mpb.New(mpb.WithOutput(&buf), mpb.WithWidth(c.Width), mpb.WithManualRefresh(ch))
		refresh := func() {
			n0 := hk.counts[hpRenderEnd].Load()
			ch <- time.Now()
			waitCount(hpRenderEnd, n0+1, 5*time.Second)
		}
		bars := make([]*mpb.Bar, c.Bars)
		for i := range bars {
			var ds []decor.Decorator
			for k := 0; k < c.Decs; k++ {
				ds = append(ds, decor.Name(fmt.Sprintf("b%d", i)))
			}
			bars[i] = pr.AddBar(10, mpb.BarRemoveOnComplete(), mpb.PrependDecorators(ds...))
		}
		for k := 0; k < c.Pre; k++ {
			refresh()
		}
		for i := c.Bars - 1; i >= 0 && i >= c.Bars-c.Drop; i-- {
			bars[i].SetCurrent(10)
		}
		for k := 0; k < 4; k++ {
			refresh()
		}
		for _, b := range bars {
			b.Abort(true)
		}
		pr.Wait()
		out = buf.String()
	})
	if p != nil {
		return fmt.Sprintf("panic: %v", p), "clip-panic"
	}
	for _, frame := range cuuRe.Split(out, -1) {
		for _, line := range strings.Split(frame, "\n") {
			if w := vterm.StringWidth(stripSGR(line)); w > c.Width {
				return fmt.Sprintf("a row of a bar that had been clipped by the frame height is %d cells wide, the width is %d: %q", w, c.Width, line), "clip-row-overflow"
			}
		}
	}
	return "", ""
}

// ---------------------------------------------------------------- runner

func runC07(job common.Job, em *emitter) {
	var cur *chunkAcc
	g := &caseGuard{}
	g.onHang = func(desc interface{}, why string) {
		key := "nonterm"
		switch c := desc.(type) {
		case c07Fill:
			key = "nonterm:" + c07Shape(c)
		case c07Dec:
			key = "nonterm:decor:" + c.Ctor
		default:
			// a case that runs a whole container (rows, clipping): its CPU time includes
			// the harness polling for the frame and every goroutine of the container, so
			// on a starved machine the budget says nothing. Termination is decided on the
			// pure Fill / Decor calls; this case is not decided.
			cur.res.Evals++
			if cur.res.Status == common.Held {
				cur.res.Status = common.Inconclusive
				cur.res.Msg = "container-based case exceeded the CPU budget (" + why + "): not decided"
			}
			cur.res.Obs["skipped_rest_of_chunk_after_hang"] = 1
			cur.finish(em)
			return
		}
		cur.res.Evals++
		cur.viol("rendering does not terminate: "+why, key, desc)
		cur.res.Obs["skipped_rest_of_chunk_after_hang"] = 1
		cur.finish(em)
	}
	g.start()
	for idx := job.From; idx < job.To; idx++ {
		em.Begin(idx, map[string]interface{}{"part": job.Part, "chunk": idx})
		acc := newChunk("C07", job.Part, idx)
		cur = acc
		if job.Replay != "" {
			var rc struct {
				Replay struct {
					Part string          `json:"part"`
					Case json.RawMessage `json:"case"`
				} `json:"replay"`
			}
			readReplay(job.Replay, &rc)
			acc.part = rc.Replay.Part
			c07One(acc, g, rc.Replay.Part, rc.Replay.Case, nil, 0)
			acc.finish(em)
			continue
		}
		rng := common.NewRng(common.H(job.Seed, "C07", job.Part, idx))
		n := map[string]int{"fill": 4000, "grid": 41 * 60, "spin": 2000, "decor": 3000, "row": 250, "clip": 40}[job.Part]
		for k := 0; k < n; k++ {
			c07One(acc, g, job.Part, nil, rng, k)
		}
		acc.finish(em)
	}
}

func c07One(acc *chunkAcc, g *caseGuard, part string, raw []byte, rng *common.Rng, k int) {
	acc.res.Evals++
	var msg, key string
	var cs interface{}
	switch part {
	case "fill", "grid", "spin":
		var c c07Fill
		if raw != nil {
			mustUnmarshal(raw, &c)
		} else if part == "spin" {
			c = genC07Spin(rng)
		} else {
			c = genC07Fill(rng, part == "grid", k)
		}
		cs = c
		msg, key = checkC07Fill(c, g)
		W := allotted(c.Req, c.Avail)
		if W > 0 {
			acc.res.NonTrivial++
			acc.sigs.add(c)
		}
		if W > 10 && msg == "" {
			acc.sample(map[string]interface{}{"case": c, "allotted": W, "observed": "every call returned valid UTF-8 of exactly the allotted display width (or nothing when the brackets/frame do not fit)"})
		}
	case "decor":
		var d c07Dec
		if raw != nil {
			mustUnmarshal(raw, &d)
		} else {
			d = genC07Dec(rng)
		}
		cs = d
		msg, key = checkC07Dec(d, g)
		acc.res.NonTrivial++
		acc.sigs.add(d)
		if msg == "" {
			acc.sample(map[string]interface{}{"case": d, "observed": "reported width equals display width of the returned text"})
		}
	case "clip":
		var c c07Clip
		if raw != nil {
			mustUnmarshal(raw, &c)
		} else {
			c = c07Clip{Width: rng.Range(6, 24), Pre: rng.Range(1, 6), Decs: rng.Intn(2)}
			c.Bars = c.Width + rng.Range(1, 8)
			c.Drop = rng.Range(1, c.Bars)
		}
		cs = c
		msg, key = checkC07Clip(c, g)
		acc.res.NonTrivial++
		acc.sigs.add(c)
		if msg == "" {
			acc.sample(map[string]interface{}{"case": c, "observed": "every row fits the width, also the rows of bars that were clipped by the height before"})
		}
	case "row":
		var r c07Row
		if raw != nil {
			mustUnmarshal(raw, &r)
		} else {
			r = genC07Row(rng)
		}
		cs = r
		msg, key = checkC07Row(r, g)
		acc.res.NonTrivial++
		acc.sigs.add(r)
		if msg == "" && len(r.Pre)+len(r.App) > 1 {
			acc.sample(map[string]interface{}{"case": r, "observed": "row matches the documented layout exactly and fits the terminal width"})
		}
	}
	if msg != "" {
		acc.viol(msg, key, cs)
	}
}
