package main

// C09: bar counters and completion follow the documented sequential rules.
// Every prefix of a sequential operation list on a not-yet-terminal bar is
// compared with the reference machine (refmodel.go) through the public
// getters, and in manually refreshed containers also through the
// decor.Statistics handed to a probe decorator.

import (
	"bytes"
	"fmt"
	"math"
	"sync"
	"time"

	mpb "github.com/vbauerster/mpb/v8"
	"github.com/vbauerster/mpb/v8/decor"

	"verif/harness/internal/common"
)

func init() { runners["C09"] = runC09 }

type c09Case struct {
	Mode  string `json:"mode"` // none | manual | auto
	Total int64  `json:"total"`
	Ops   []BOp  `json:"ops"`
}

var c09Totals = []int64{-5, 0, 1, 10, 1 << 62, math.MaxInt64 - 1, math.MaxInt64}

// the op alphabet of the exhaustive part, argument classes relative to the initial total
func c09Alphabet(t int64) []BOp {
	tm1 := t - 1
	return []BOp{
		{K: "increment"},
		{K: "incrby", N: common.ClampI64(tm1, -1000, 1000)},
		{K: "incr", N: -1},
		{K: "incr", N: 0},
		{K: "incr", N: t},
		{K: "incr", N: 1 << 40},
		{K: "ewmaincr", N: 1, D: 1000},
		{K: "ewmaincrby", N: 3, D: 0},
		{K: "setcur", N: -1},
		{K: "setcur", N: 0},
		{K: "setcur", N: tm1},
		{K: "setcur", N: t},
		{K: "setcur", N: t + 1},
		{K: "ewmasetcur", N: t / 2, D: 5000},
		{K: "ewmasetcur", N: t, D: 7},
		{K: "settotal", N: -1, F: false},
		{K: "settotal", N: t + 5, F: false},
		{K: "settotal", N: 7, F: true},
		{K: "enable"},
		{K: "refill", N: 3},
		{K: "abort", F: false},
	}
}

type statProbe struct {
	mu sync.Mutex
	st decor.Statistics
	n  int
}

func (p *statProbe) decorator() decor.Decorator {
	return decor.Any(func(s decor.Statistics) string {
		p.mu.Lock()
		p.st = s
		p.n++
		p.mu.Unlock()
		return "p"
	})
}

func (p *statProbe) get() (decor.Statistics, int) {
	p.mu.Lock()
	defer p.mu.Unlock()
	return p.st, p.n
}

type c09Env struct {
	mode string
	p    *mpb.Progress
	ch   chan interface{}
	buf  *bytes.Buffer
}

func newC09Env(mode string) *c09Env {
	e := &c09Env{mode: mode, buf: new(bytes.Buffer)}
	switch mode {
	case "manual":
		e.ch = make(chan interface{})
		e.p = mpb.New(mpb.WithOutput(e.buf), mpb.WithWidth(60), mpb.WithManualRefresh(e.ch))
	case "auto":
		e.p = mpb.New(mpb.WithOutput(e.buf), mpb.WithWidth(60), mpb.WithAutoRefresh(), mpb.WithRefreshRate(500*time.Microsecond))
	default:
		e.p = mpb.New(mpb.WithOutput(e.buf), mpb.WithWidth(60))
	}
	return e
}

func (e *c09Env) refresh() bool {
	n0 := hk.counts[hpRenderEnd].Load()
	e.ch <- time.Now()
	return waitCount(hpRenderEnd, n0+1, 10*time.Second)
}

// runC09Case returns a violation message or "".
func runC09Case(e *c09Env, c c09Case) (msg string, steps int, reachedTerminal bool) {
	probe := &statProbe{}
	bar, err := e.p.Add(c.Total, nil, mpb.PrependDecorators(probe.decorator()), mpb.BarRemoveOnComplete())
	if err != nil {
		return "HARNESS: Add failed: " + err.Error(), 0, false
	}
	m := newRef(c.Total)
	defer func() {
		// whatever the comparison said, the bar must not keep the container's Wait
		// from returning (the model's idea of "done" is not the bar's under a defect)
		if !m.Done || !(bar.Completed() || bar.Aborted()) {
			bar.Abort(true)
		}
	}()
	check := func(i int, o BOp) string {
		cur, comp, ab := bar.Current(), bar.Completed(), bar.Aborted()
		if cur != m.Current || comp != m.completed() || ab != m.Aborted {
			return fmt.Sprintf("after step %d %s of %v on a bar created with total %d (%s container): Current=%d Completed=%v Aborted=%v, documented rules give Current=%d Completed=%v Aborted=%v",
				i, o, c.Ops, c.Total, c.Mode, cur, comp, ab, m.Current, m.completed(), m.Aborted)
		}
		if e.mode == "manual" && !m.Done {
			if e.refresh() {
				st, n := probe.get()
				if n > 0 && (st.Total != m.Total || st.Current != m.Current || st.Refill != m.Refill || st.Completed != m.completed() || st.Aborted != m.Aborted) {
					return fmt.Sprintf("after step %d %s of %v (total %d): frame statistics %+v, documented rules give total=%d current=%d refill=%d completed=%v aborted=%v",
						i, o, c.Ops, c.Total, st, m.Total, m.Current, m.Refill, m.completed(), m.Aborted)
				}
			}
		}
		return ""
	}
	if s := check(-1, BOp{K: "create"}); s != "" {
		return s, 0, false
	}
	for i, o := range c.Ops {
		if m.Done {
			// past the terminal transition only one documented rule remains:
			// Abort has no effect on a completed bar
			if m.completed() && o.K == "abort" {
				callOp(bar, o)
				steps++
				if s := check(i, o); s != "" {
					return s, steps, true
				}
				continue
			}
			if m.completed() {
				continue
			}
			return "", steps, true
		}
		if m.overflows(o) {
			continue
		}
		callOp(bar, o)
		m.apply(o)
		steps++
		if s := check(i, o); s != "" {
			return s, steps, m.Done
		}
	}
	return "", steps, m.Done
}

func randBOp(r *common.Rng, m *refBar) BOp {
	arg := func() int64 {
		switch r.Intn(7) {
		case 0:
			return int64(r.Range(-3, 3))
		case 1:
			return m.Total + int64(r.Range(-2, 2))
		case 2:
			return m.Current + int64(r.Range(-2, 2))
		case 3:
			return r.I64n(1 << 20)
		case 4:
			return -r.I64n(1 << 20)
		case 5:
			return r.I64n(1 << 61)
		default:
			return m.Total - m.Current + int64(r.Range(-1, 1))
		}
	}
	switch r.Intn(16) {
	case 0:
		return BOp{K: "increment"}
	case 1:
		return BOp{K: "incrby", N: common.ClampI64(arg(), -1<<30, 1<<30)}
	case 2, 3:
		return BOp{K: "incr", N: arg()}
	case 4:
		return BOp{K: "ewmaincr", N: arg(), D: r.I64n(1e6)}
	case 5:
		return BOp{K: "ewmaincrby", N: common.ClampI64(arg(), -1<<30, 1<<30), D: r.I64n(1e6)}
	case 6:
		return BOp{K: "ewmaincrement", D: r.I64n(1e6)}
	case 7, 8:
		return BOp{K: "setcur", N: arg()}
	case 9:
		return BOp{K: "ewmasetcur", N: arg(), D: r.I64n(1e6)}
	case 10, 11:
		return BOp{K: "settotal", N: arg(), F: r.Chance(1, 5)}
	case 12:
		return BOp{K: "enable"}
	case 13, 14:
		return BOp{K: "refill", N: arg()}
	default:
		if r.Chance(1, 3) {
			return BOp{K: "abort", F: r.Bool()}
		}
		return BOp{K: "incr", N: 1}
	}
}

func runC09(job common.Job, em *emitter) {
	for idx := job.From; idx < job.To; idx++ {
		em.Begin(idx, map[string]interface{}{"part": job.Part, "chunk": idx})
		acc := newChunk("C09", job.Part, idx)
		one := func(e *c09Env, c c09Case) {
			acc.res.Evals++
			msg, steps, term := runC09Case(e, c)
			if steps >= 2 {
				acc.res.NonTrivial++
				acc.sigs.add(c.Mode, c.Total, fmt.Sprint(c.Ops))
			}
			acc.res.Obs["steps_compared"] += int64(steps)
			if term {
				acc.res.Obs["sequences_reaching_terminal"]++
			}
			if msg != "" {
				key := "seq:" + c.Mode
				if len(c.Ops) > 0 {
					key += ":" + lastOpKind(c, msg)
				}
				acc.viol(msg, key, c)
			} else if steps >= 3 {
				acc.sample(map[string]interface{}{"case": c, "observed": fmt.Sprintf("%d steps, getters equal the reference machine after each", steps)})
			}
		}
		if job.Replay != "" {
			var rc struct {
				Replay struct {
					Case c09Case `json:"case"`
				} `json:"replay"`
			}
			readReplay(job.Replay, &rc)
			e := newC09Env(rc.Replay.Case.Mode)
			one(e, rc.Replay.Case)
			waitC09(e, acc, rc.Replay.Case)
			acc.finish(em)
			continue
		}
		rng := common.NewRng(common.H(job.Seed, "C09", job.Part, idx))
		switch job.Part {
		case "exh3", "exh4":
			// exhaustive over sequences of length L from each initial total; the
			// first letter is split over the chunks (one chunk per letter)
			L := 3
			if job.Part == "exh4" {
				L = 4
			}
			e := newC09Env("none")
			for _, t := range c09Totals {
				alpha := c09Alphabet(t)
				first := idx % len(alpha)
				seq := make([]int, L)
				var rec func(pos int)
				rec = func(pos int) {
					if pos == L {
						ops := make([]BOp, L)
						for i, a := range seq {
							ops[i] = alpha[a]
						}
						one(e, c09Case{Mode: "none", Total: t, Ops: ops})
						return
					}
					for a := range alpha {
						if pos == 0 && a != first {
							continue
						}
						seq[pos] = a
						rec(pos + 1)
					}
				}
				rec(0)
			}
			waitC09(e, acc, c09Case{Mode: "none"})
			acc.res.Obs["exhaustive_first_letter_chunks"] = 1
		case "random":
			for k := 0; k < 300; k++ {
				mode := rng.PickS("none", "none", "manual", "auto")
				t := rng.Pick64(-5, 0, 1, 2, 10, 100, 1<<62, rng.I64n(1<<40), -rng.I64n(100), math.MaxInt64, math.MaxInt64-rng.I64n(1000))
				m := newRef(t)
				n := rng.Range(1, 40)
				var ops []BOp
				for i := 0; i < n && !m.Done; i++ {
					o := randBOp(rng, &m)
					if m.overflows(o) {
						continue
					}
					m.apply(o)
					ops = append(ops, o)
				}
				if m.Done && m.completed() && rng.Chance(1, 2) {
					ops = append(ops, BOp{K: "abort", F: rng.Bool()})
				}
				e := newC09Env(mode)
				cs := c09Case{Mode: mode, Total: t, Ops: ops}
				one(e, cs)
				waitC09(e, acc, cs)
			}
		}
		acc.finish(em)
	}
}

// waitC09: every bar of the container was driven to a terminal state, so Wait
// returns; if it does not and the process is certifiably parked, that is
// reported instead of hanging the worker.
func waitC09(e *c09Env, acc *chunkAcc, c c09Case) {
	if sig, _ := callCertified(e.p.Wait); sig != "" {
		acc.viol(fmt.Sprintf("Progress.Wait never returns after the sequence %v on a bar created with total %d (%s container), although the bar was completed or aborted: certified deadlock (%s)", c.Ops, c.Total, c.Mode, sig), "wait-hangs:"+c.Mode, c)
	}
}

func lastOpKind(c c09Case, msg string) string {
	// the op named in the message ("after step i <op>")
	var i int
	var k string
	if _, err := fmt.Sscanf(msg, "after step %d %s", &i, &k); err == nil {
		for j := 0; j < len(k); j++ {
			if k[j] == '(' {
				return k[:j]
			}
		}
		return k
	}
	return "?"
}
