package main

// Frame parser: turns the recorded output events into frames (cursor prefix,
// text lines, row groups). Every bar row is self-describing through the marker
// decorator "<id|current/total|C0A0|k>"; extender lines are "<id+j>"; text
// written through the container is "~writer:seq:payload~".

import (
	"regexp"
	"strconv"
	"strings"
)

type Group struct {
	ID      int
	Cur     int64
	Tot     int64
	C, A    bool
	K       int64
	Main    string   // the main row, SGR stripped, without newline
	RawMain string   // the main row as written (with SGR sequences)
	Lines   []string // all lines of the group, top to bottom
	MainIdx int      // index of Main within Lines
}

type Frame struct {
	Idx    int
	T0, T1 int64
	Cycle  int // index of the render cycle (render.begin count) that wrote it, -1 unknown
	Up     int // cursor-up count of the prefix, -1 = no prefix
	Text   []string
	Groups []Group
	Junk   []string // lines that are neither text nor rows
	Raw    []byte
	Failed bool
}

func (f *Frame) rowCount() int {
	n := 0
	for _, g := range f.Groups {
		n += len(g.Lines)
	}
	return n
}

func (f *Frame) find(id int) *Group {
	for i := range f.Groups {
		if f.Groups[i].ID == id {
			return &f.Groups[i]
		}
	}
	return nil
}

func (f *Frame) ids() []int {
	out := make([]int, len(f.Groups))
	for i, g := range f.Groups {
		out[i] = g.ID
	}
	return out
}

var (
	markerRe = regexp.MustCompile(`<(\d+)\|(-?\d+)/(-?\d+)\|C([01])A([01])\|(\d+)>`)
	extRe    = regexp.MustCompile(`^<(\d+)\+(\d+)>$`)
	prefixRe = regexp.MustCompile(`^\x1b\[(\d+)[AF]\x1b\[0?J`) // CUU or CPL, then ED (the same to a terminal at column 0)
)

func parseFrame(idx int, o OutRec) Frame {
	f := Frame{Idx: idx, T0: o.T0, T1: o.T1, Up: -1, Raw: o.B, Failed: o.Failed, Cycle: -1}
	s := string(o.B)
	s = strings.ReplaceAll(s, "\r\n", "\n")
	if m := prefixRe.FindStringSubmatch(s); m != nil {
		f.Up, _ = strconv.Atoi(m[1])
		s = s[len(m[0]):]
	}
	if s == "" {
		return f
	}
	trailing := strings.HasSuffix(s, "\n")
	lines := strings.Split(s, "\n")
	if trailing {
		lines = lines[:len(lines)-1]
	} else {
		f.Junk = append(f.Junk, "(frame does not end in a newline)")
	}
	inRows := false
	for _, raw := range lines {
		line := stripSGR(raw)
		if m := markerRe.FindStringSubmatch(line); m != nil {
			id, _ := strconv.Atoi(m[1])
			cur, _ := strconv.ParseInt(m[2], 10, 64)
			tot, _ := strconv.ParseInt(m[3], 10, 64)
			k, _ := strconv.ParseInt(m[6], 10, 64)
			inRows = true
			// attach to a group of the same id opened by reverse extender lines
			if n := len(f.Groups); n > 0 && f.Groups[n-1].ID == id && f.Groups[n-1].MainIdx < 0 {
				g := &f.Groups[n-1]
				g.Cur, g.Tot, g.C, g.A, g.K, g.Main = cur, tot, m[4] == "1", m[5] == "1", k, line
				g.RawMain = raw
				g.MainIdx = len(g.Lines)
				g.Lines = append(g.Lines, line)
			} else {
				f.Groups = append(f.Groups, Group{ID: id, Cur: cur, Tot: tot, C: m[4] == "1", A: m[5] == "1", K: k, Main: line, RawMain: raw, Lines: []string{line}, MainIdx: 0})
			}
			continue
		}
		if m := extRe.FindStringSubmatch(strings.TrimSpace(line)); m != nil {
			id, _ := strconv.Atoi(m[1])
			inRows = true
			if n := len(f.Groups); n > 0 && f.Groups[n-1].ID == id {
				f.Groups[n-1].Lines = append(f.Groups[n-1].Lines, line)
			} else {
				f.Groups = append(f.Groups, Group{ID: id, MainIdx: -1, Lines: []string{line}})
			}
			continue
		}
		if strings.HasPrefix(line, "~") && !inRows {
			f.Text = append(f.Text, line)
			continue
		}
		f.Junk = append(f.Junk, line)
	}
	return f
}

// parseFrames turns the output events into frames and attaches the render cycle.
// A frame is what one render cycle wrote: the writes that fall between a
// render.begin and the following render.end hook (all three happen on the
// container goroutine, so the logical clock orders them exactly) are joined,
// however the library chose to chunk them; the properties speak of frames and
// bytes, never of Write calls. Writes outside any cycle stay on their own;
// zero-length writes carry nothing and are dropped.
func parseFrames(outs []OutRec, hooks []HookRec) []Frame {
	var begins, ends []int64
	for _, h := range hooks {
		switch h.P {
		case hpRenderBegin:
			begins = append(begins, h.T)
		case hpRenderEnd:
			ends = append(ends, h.T)
		}
	}
	// cycleOf: index of the cycle whose [begin, end] interval holds t, else -1
	cycleOf := func(t int64) int {
		lo, hi := 0, len(begins)
		for lo < hi {
			m := (lo + hi) / 2
			if begins[m] < t {
				lo = m + 1
			} else {
				hi = m
			}
		}
		c := lo - 1
		if c < 0 {
			return -1
		}
		if c < len(ends) && ends[c] < t {
			return -1
		}
		return c
	}
	var merged []OutRec
	var cyc, within []int
	bi := 0
	for _, o := range outs {
		if len(o.B) == 0 && !o.Failed {
			continue
		}
		c := cycleOf(o.T0)
		for bi < len(begins) && begins[bi] < o.T0 {
			bi++
		}
		if n := len(merged); c >= 0 && n > 0 && within[n-1] == c {
			m := &merged[n-1]
			m.B = append(append([]byte(nil), m.B...), o.B...)
			m.T1 = o.T1
			m.Failed = m.Failed || o.Failed
			continue
		}
		merged = append(merged, o)
		cyc = append(cyc, bi-1)
		within = append(within, c)
	}
	frames := make([]Frame, 0, len(merged))
	for i, o := range merged {
		f := parseFrame(i, o)
		f.Cycle = cyc[i]
		frames = append(frames, f)
	}
	return frames
}
