package main

// Central dispatch for the library's verif hooks (build tag verif in /repo).
// mpb.VerifHook is set once at process start, before any container exists,
// and never changed, so the library reads it without synchronisation.

import (
	"sync/atomic"
	"time"

	mpb "github.com/vbauerster/mpb/v8"
)

var hookPoints = []string{
	"add", "serve.done", "serve.end", "render.begin", "render.requested", "render.end",
	"flush.bar", "flush.write", "hm.req", "hm.push", "hm.push.detached", "dist.collected",
	"bar.exit", "bar.render.terminal", "early.refresh", "bar.trigger", "bar.op",
}

const (
	hpAdd = iota
	hpServeDone
	hpServeEnd
	hpRenderBegin
	hpRenderRequested
	hpRenderEnd
	hpFlushBar
	hpFlushWrite
	hpHmReq
	hpHmPush
	hpHmPushDetached
	hpDistCollected
	hpBarExit
	hpBarRenderTerminal
	hpEarlyRefresh
	hpBarTrigger
	hpBarOp
	hpCount
)

func pointIndex(p string) int {
	switch p {
	case "add":
		return hpAdd
	case "serve.done":
		return hpServeDone
	case "serve.end":
		return hpServeEnd
	case "render.begin":
		return hpRenderBegin
	case "render.requested":
		return hpRenderRequested
	case "render.end":
		return hpRenderEnd
	case "flush.bar":
		return hpFlushBar
	case "flush.write":
		return hpFlushWrite
	case "hm.req":
		return hpHmReq
	case "hm.push":
		return hpHmPush
	case "hm.push.detached":
		return hpHmPushDetached
	case "dist.collected":
		return hpDistCollected
	case "bar.exit":
		return hpBarExit
	case "bar.render.terminal":
		return hpBarRenderTerminal
	case "early.refresh":
		return hpEarlyRefresh
	case "bar.trigger":
		return hpBarTrigger
	case "bar.op":
		return hpBarOp
	}
	return -1
}

type hookFn func(pi int, bar *mpb.Bar, a, b int)

var hk struct {
	clock  atomic.Int64 // logical clock: one tick per recorded event
	counts [hpCount]atomic.Int64
	cb     atomic.Pointer[hookFn]
}

// raceMode: the worker was built with -race for the race tier. The logical
// clock, history recording and hook callback are off: their atomics and
// mutexes would add happens-before edges between the very goroutines whose
// unsynchronised accesses the race detector is meant to see.
var raceMode bool

var raceT0 = time.Now()

// tick advances the logical clock and returns the new value. In race mode it
// returns the monotonic clock, which synchronises nothing.
func tick() int64 {
	if raceMode {
		return int64(time.Since(raceT0))
	}
	return hk.clock.Add(1)
}

func hookDispatch(point string, bar *mpb.Bar, a, b int) {
	pi := pointIndex(point)
	if pi < 0 {
		return
	}
	hk.counts[pi].Add(1)
	if cb := hk.cb.Load(); cb != nil {
		(*cb)(pi, bar, a, b)
	}
}

// installHooks is called once from main before any container is created.
// In the race tier the callback stays off: atomics are synchronisation to the
// race detector and would hide the races the tier is looking for.
func installHooks(on bool) {
	if on {
		mpb.VerifHook = hookDispatch
	} else {
		raceMode = true
	}
}

func setHookCallback(f hookFn) {
	if f == nil {
		hk.cb.Store(nil)
		return
	}
	hk.cb.Store(&f)
}

// waitCount polls until counter pi reaches at least n; gives up after max.
func waitCount(pi int, n int64, max time.Duration) bool {
	deadline := time.Now().Add(max)
	for hk.counts[pi].Load() < n {
		if time.Now().After(deadline) {
			return false
		}
		time.Sleep(20 * time.Microsecond)
	}
	return true
}
