package main

// The C09/C10/C11 reference machine (DESIGN.md Appendix B) and the mapping of
// abstract bar operations to calls on the real *mpb.Bar.

import (
	"fmt"
	"math"
	"time"

	mpb "github.com/vbauerster/mpb/v8"
)

// BOp is one abstract bar operation.
type BOp struct {
	K string `json:"k"`
	N int64  `json:"n,omitempty"`
	F bool   `json:"f,omitempty"`
	D int64  `json:"d,omitempty"` // duration in ns for the ewma flavours
}

func (o BOp) String() string {
	switch o.K {
	case "settotal", "abort":
		return fmt.Sprintf("%s(%d,%v)", o.K, o.N, o.F)
	case "increment", "ewmaincrement", "enable", "cur", "compl", "abrt":
		return o.K + "()"
	}
	return fmt.Sprintf("%s(%d)", o.K, o.N)
}

func (o BOp) isGetter() bool { return o.K == "cur" || o.K == "compl" || o.K == "abrt" }

type refBar struct {
	Total, Current, Refill int64
	Trigger, Aborted, Done bool
}

func newRef(total int64) refBar { return refBar{Total: total, Trigger: total > 0} }

func (s *refBar) completed() bool { return s.Trigger && !s.Aborted && s.Current == s.Total }

func (s *refBar) clamp() {
	if s.Trigger && s.Current >= s.Total {
		s.Current = s.Total
		s.Done = true
	}
}

// apply executes a mutator on the model; getters return their value.
func (s *refBar) apply(o BOp) int64 {
	switch o.K {
	case "incr", "incrby", "ewmaincr", "ewmaincrby":
		s.Current += o.N
		s.clamp()
	case "increment", "ewmaincrement":
		s.Current++
		s.clamp()
	case "setcur", "ewmasetcur":
		if o.N >= 0 {
			s.Current = o.N
			s.clamp()
		}
	case "settotal":
		if !s.Trigger {
			if o.N < 0 {
				s.Total = s.Current
			} else {
				s.Total = o.N
			}
			if o.F {
				s.Current = s.Total
				s.Trigger = true
				s.Done = true
			}
		}
	case "enable":
		if !s.Trigger {
			if s.Current >= s.Total {
				s.Current = s.Total
				s.Done = true
			}
			s.Trigger = true
		}
	case "refill":
		if o.N < s.Current {
			s.Refill = o.N
		} else {
			s.Refill = s.Current
		}
	case "abort":
		if !s.Aborted && !s.completed() {
			s.Aborted = true
			s.Trigger = true
			s.Done = true
		}
	case "cur":
		return s.Current
	case "compl":
		return b2i(s.completed())
	case "abrt":
		return b2i(s.Aborted)
	}
	return 0
}

func b2i(b bool) int64 {
	if b {
		return 1
	}
	return 0
}

// overflows reports whether applying o to s would overflow int64 (outside the
// documented rules; such ops are not generated).
func (s *refBar) overflows(o BOp) bool {
	switch o.K {
	case "incr", "incrby", "ewmaincr", "ewmaincrby":
		if o.N > 0 && s.Current > math.MaxInt64-o.N {
			return true
		}
		if o.N < 0 && s.Current < math.MinInt64-o.N {
			return true
		}
		if o.K == "incrby" || o.K == "ewmaincrby" {
			return o.N > math.MaxInt32 || o.N < math.MinInt32
		}
	case "increment", "ewmaincrement":
		return s.Current == math.MaxInt64
	}
	return false
}

// callOp performs o on the real bar. Getters return their value.
func callOp(b *mpb.Bar, o BOp) int64 {
	switch o.K {
	case "incr":
		b.IncrInt64(o.N)
	case "incrby":
		b.IncrBy(int(o.N))
	case "increment":
		b.Increment()
	case "ewmaincr":
		b.EwmaIncrInt64(o.N, time.Duration(o.D))
	case "ewmaincrby":
		b.EwmaIncrBy(int(o.N), time.Duration(o.D))
	case "ewmaincrement":
		b.EwmaIncrement(time.Duration(o.D))
	case "setcur":
		b.SetCurrent(o.N)
	case "ewmasetcur":
		b.EwmaSetCurrent(o.N, time.Duration(o.D))
	case "settotal":
		b.SetTotal(o.N, o.F)
	case "enable":
		b.EnableTriggerComplete()
	case "refill":
		b.SetRefill(o.N)
	case "abort":
		b.Abort(o.F)
	case "cur":
		return b.Current()
	case "compl":
		return b2i(b.Completed())
	case "abrt":
		return b2i(b.Aborted())
	}
	return 0
}
