package main

// A pseudo terminal of a chosen size: the only way to execute the library's
// terminal path (IsTerminal, real size queries, height clipping). The master
// side is drained by a reader goroutine; frames are cut exactly at the
// render.end hook (the reader confirms it has consumed everything the cycle
// wrote), so frame boundaries do not depend on parsing.

import (
	"fmt"
	"os"
	"strings"
	"sync"
	"sync/atomic"
	"time"

	"golang.org/x/sys/unix"
)

type ptyPair struct {
	master int
	slave  *os.File
	rr     *runRec
	rows   int
	cols   int

	mu          sync.Mutex
	cur         []byte // bytes read since the last cut
	curT0       int64
	cutReq      atomic.Int64
	cutAck      atomic.Int64
	stop        atomic.Bool
	stopped     chan struct{}
	broken      atomic.Bool
	cutT        time.Time
	expectRows  atomic.Int64
	expectBytes atomic.Bool
}

func openPty(rows, cols int) (*ptyPair, error) {
	m, err := unix.Open("/dev/ptmx", unix.O_RDWR|unix.O_NOCTTY|unix.O_CLOEXEC, 0)
	if err != nil {
		return nil, fmt.Errorf("open ptmx: %w", err)
	}
	if err := unix.IoctlSetPointerInt(m, unix.TIOCSPTLCK, 0); err != nil {
		unix.Close(m)
		return nil, fmt.Errorf("unlockpt: %w", err)
	}
	n, err := unix.IoctlGetInt(m, unix.TIOCGPTN)
	if err != nil {
		unix.Close(m)
		return nil, fmt.Errorf("ptsname: %w", err)
	}
	name := fmt.Sprintf("/dev/pts/%d", n)
	s, err := unix.Open(name, unix.O_RDWR|unix.O_NOCTTY, 0)
	if err != nil {
		unix.Close(m)
		return nil, fmt.Errorf("open slave: %w", err)
	}
	if err := unix.IoctlSetWinsize(m, unix.TIOCSWINSZ, &unix.Winsize{Row: uint16(rows), Col: uint16(cols)}); err != nil {
		unix.Close(m)
		unix.Close(s)
		return nil, fmt.Errorf("winsize: %w", err)
	}
	if err := unix.SetNonblock(m, true); err != nil {
		unix.Close(m)
		unix.Close(s)
		return nil, err
	}
	p := &ptyPair{master: m, slave: os.NewFile(uintptr(s), name), rows: rows, cols: cols, stopped: make(chan struct{})}
	go p.reader()
	return p, nil
}

func (p *ptyPair) reader() {
	defer close(p.stopped)
	buf := make([]byte, 65536)
	for {
		n, err := unix.Read(p.master, buf)
		if n > 0 {
			p.mu.Lock()
			if len(p.cur) == 0 {
				p.curT0 = tick()
			}
			p.cur = append(p.cur, buf[:n]...)
			p.mu.Unlock()
			continue
		}
		// nothing available right now. A write to the slave reaches the master
		// through a kernel work item, i.e. possibly a little later than the
		// writer's return: close the frame only once it is complete (it holds
		// the number of rows the flush.write hook announced and ends in a
		// newline), or after a grace period.
		if req := p.cutReq.Load(); req != p.cutAck.Load() {
			if p.complete() || time.Since(p.cutSince()) > 300*time.Millisecond {
				p.flushCut()
				p.cutAck.Store(req)
			}
		}
		if p.stop.Load() {
			p.flushCut()
			return
		}
		if err != nil && err != unix.EAGAIN && err != unix.EINTR {
			// EIO once the slave is closed
			if p.stop.Load() {
				p.flushCut()
				return
			}
		}
		time.Sleep(30 * time.Microsecond)
	}
}

func (p *ptyPair) cutSince() time.Time {
	p.mu.Lock()
	defer p.mu.Unlock()
	return p.cutT
}

// complete: the bytes read since the last cut form a whole flush.
func (p *ptyPair) complete() bool {
	p.mu.Lock()
	b := p.cur
	p.mu.Unlock()
	want := int(p.expectRows.Load())
	if len(b) == 0 {
		return want == 0 && !p.expectBytes.Load()
	}
	last := b[len(b)-1]
	if last != '\n' && last != 'J' {
		return false
	}
	n := 0
	for _, l := range strings.Split(string(b), "\n") {
		if markerRe.MatchString(l) || extRe.MatchString(strings.TrimSpace(strings.TrimSuffix(stripSGR(l), "\r"))) {
			n++
		}
	}
	return n >= want
}

func (p *ptyPair) flushCut() {
	p.mu.Lock()
	b, t0 := p.cur, p.curT0
	p.cur = nil
	p.mu.Unlock()
	if len(b) == 0 {
		return
	}
	t1 := tick()
	p.rr.mu.Lock()
	p.rr.outs = append(p.rr.outs, OutRec{T0: t0, T1: t1, B: b})
	p.rr.mu.Unlock()
}

// cut is called from the render.end hook: everything the cycle wrote is in the
// kernel buffer by now; wait until the reader has taken it and closed the frame.
func (p *ptyPair) cut() {
	p.mu.Lock()
	p.cutT = time.Now()
	p.mu.Unlock()
	req := p.cutReq.Add(1)
	for i := 0; i < 100000 && p.cutAck.Load() < req; i++ {
		time.Sleep(20 * time.Microsecond)
	}
}

// breakTTY makes every later ioctl on the slave fail with ENOTTY (and sends
// later output to /dev/null): the terminal-size query fault of C15.
func (p *ptyPair) breakTTY() {
	if p.broken.Swap(true) {
		return
	}
	nul, err := unix.Open("/dev/null", unix.O_WRONLY, 0)
	if err != nil {
		return
	}
	_ = unix.Dup2(nul, int(p.slave.Fd()))
	unix.Close(nul)
}

func (p *ptyPair) close() {
	p.cut()
	p.stop.Store(true)
	<-p.stopped
	p.slave.Close()
	unix.Close(p.master)
}
