package main

// C19: proxy readers and writers are transparent and account every byte.
// A scripted under-layer (sequence of (n, err, delay) per call) sits below the
// proxy; the harness drives the proxy and compares both sides, the bar's
// counter, and the samples received by a recording moving-average decorator.

import (
	"bytes"
	"errors"
	"fmt"
	"io"
	"sync"
	"time"

	mpb "github.com/vbauerster/mpb/v8"
	"github.com/vbauerster/mpb/v8/decor"

	"verif/harness/internal/common"
)

func init() { runners["C19"] = runC19 }

type ioStep struct {
	N     int   `json:"n"`     // bytes the under-layer transfers in this call
	Err   int   `json:"err"`   // 0 none, 1 io.EOF, 2 custom error, 3 io.ErrShortWrite
	Delay int64 `json:"delay"` // ns slept inside the under-layer call
	Buf   int   `json:"buf"`   // size of the buffer the client passes
}

type c19Case struct {
	Dir        string   `json:"dir"` // read | write
	HasClose   bool     `json:"has_close"`
	HasFast    bool     `json:"has_fast"` // WriterTo (read) / ReaderFrom (write)
	UseFast    bool     `json:"use_fast"`
	Ewma       bool     `json:"ewma"`
	Wrap       int      `json:"wrap"`
	Total      int64    `json:"total"` // <=0 unknown
	Mode       string   `json:"mode"`  // none | auto
	Steps      []ioStep `json:"steps"`
	CloseTwice bool     `json:"close_twice"`
}

var errCustom = errors.New("scripted failure")

func stepErr(k int) error {
	switch k {
	case 1:
		return io.EOF
	case 2:
		return errCustom
	case 3:
		return io.ErrShortWrite
	}
	return nil
}

// under is the scripted under-layer for both directions.
type under struct {
	steps  []ioStep
	i      int
	seen   bytes.Buffer // bytes that crossed the under-layer
	closes int
	fastN  int // number of fast-path calls
	next   byte
}

func (u *under) step() ioStep {
	if u.i < len(u.steps) {
		s := u.steps[u.i]
		u.i++
		return s
	}
	return ioStep{Err: 1}
}

func (u *under) Read(p []byte) (int, error) {
	s := u.step()
	if s.Delay > 0 {
		time.Sleep(time.Duration(s.Delay))
	}
	n := s.N
	if n > len(p) {
		n = len(p)
	}
	for k := 0; k < n; k++ {
		p[k] = u.next
		u.next++
	}
	u.seen.Write(p[:n])
	return n, stepErr(s.Err)
}

func (u *under) Write(p []byte) (int, error) {
	s := u.step()
	if s.Delay > 0 {
		time.Sleep(time.Duration(s.Delay))
	}
	n := s.N
	if n > len(p) {
		n = len(p)
	}
	u.seen.Write(p[:n])
	return n, stepErr(s.Err)
}

func (u *under) doClose() error { u.closes++; return errCustom }

// fast paths: one call that moves the sum of the remaining script
func (u *under) writeTo(w io.Writer) (int64, error) {
	u.fastN++
	var total int64
	var err error
	for u.i < len(u.steps) {
		s := u.step()
		if s.Delay > 0 {
			time.Sleep(time.Duration(s.Delay))
		}
		buf := make([]byte, s.N)
		for k := range buf {
			buf[k] = u.next
			u.next++
		}
		u.seen.Write(buf)
		n, _ := w.Write(buf)
		total += int64(n)
		if e := stepErr(s.Err); e != nil && e != io.EOF {
			err = e
			break
		}
	}
	return total, err
}

func (u *under) readFrom(r io.Reader) (int64, error) {
	u.fastN++
	var total int64
	buf := make([]byte, 4096)
	for {
		n, err := r.Read(buf)
		u.seen.Write(buf[:n])
		total += int64(n)
		if err != nil {
			if err == io.EOF {
				return total, nil
			}
			return total, err
		}
	}
}

// the eight dynamic shapes
type rPlain struct{ u *under }
type rClose struct{ u *under }
type rFast struct{ u *under }
type rCloseFast struct{ u *under }

func (x rPlain) Read(p []byte) (int, error)             { return x.u.Read(p) }
func (x rClose) Read(p []byte) (int, error)             { return x.u.Read(p) }
func (x rClose) Close() error                           { return x.u.doClose() }
func (x rFast) Read(p []byte) (int, error)              { return x.u.Read(p) }
func (x rFast) WriteTo(w io.Writer) (int64, error)      { return x.u.writeTo(w) }
func (x rCloseFast) Read(p []byte) (int, error)         { return x.u.Read(p) }
func (x rCloseFast) Close() error                       { return x.u.doClose() }
func (x rCloseFast) WriteTo(w io.Writer) (int64, error) { return x.u.writeTo(w) }

type wPlain struct{ u *under }
type wClose struct{ u *under }
type wFast struct{ u *under }
type wCloseFast struct{ u *under }

func (x wPlain) Write(p []byte) (int, error)             { return x.u.Write(p) }
func (x wClose) Write(p []byte) (int, error)             { return x.u.Write(p) }
func (x wClose) Close() error                            { return x.u.doClose() }
func (x wFast) Write(p []byte) (int, error)              { return x.u.Write(p) }
func (x wFast) ReadFrom(r io.Reader) (int64, error)      { return x.u.readFrom(r) }
func (x wCloseFast) Write(p []byte) (int, error)         { return x.u.Write(p) }
func (x wCloseFast) Close() error                        { return x.u.doClose() }
func (x wCloseFast) ReadFrom(r io.Reader) (int64, error) { return x.u.readFrom(r) }

// failingReader yields r's data and then err instead of io.EOF (nil err = plain EOF).
type failingReader struct {
	r   io.Reader
	err error
}

func (f *failingReader) Read(p []byte) (int, error) {
	n, e := f.r.Read(p)
	if e == io.EOF && f.err != nil {
		return n, f.err
	}
	return n, e
}

// recorder is a user decorator implementing decor.EwmaDecorator.
type recorder struct {
	decor.WC
	mu      sync.Mutex
	samples []c20Sample
}

func (r *recorder) Decor(decor.Statistics) (string, int) { return r.Format("r") }
func (r *recorder) EwmaUpdate(n int64, d time.Duration) {
	r.mu.Lock()
	r.samples = append(r.samples, c20Sample{N: n, D: int64(d)})
	r.mu.Unlock()
}
func (r *recorder) get() []c20Sample {
	r.mu.Lock()
	defer r.mu.Unlock()
	return append([]c20Sample(nil), r.samples...)
}

type callRec struct {
	n        int64
	injected int64
	measured int64
}

func runC19Case(c c19Case) (msg, key string) {
	defer func() {
		if r := recover(); r != nil {
			msg, key = fmt.Sprintf("panic: %v", r), "panic"
		}
	}()
	u := &under{steps: c.Steps}
	var out bytes.Buffer
	var p *mpb.Progress
	if c.Mode == "auto" {
		p = mpb.New(mpb.WithOutput(&out), mpb.WithWidth(60), mpb.WithAutoRefresh(), mpb.WithRefreshRate(300*time.Microsecond))
	} else {
		p = mpb.New(mpb.WithOutput(&out), mpb.WithWidth(60))
	}
	speedAvg, etaAvg := &fixedAvg{}, &fixedAvg{}
	nrec := 1 + c.Wrap%3 // 1..3 moving-average decorators on the bar
	recs := make([]*recorder, nrec)
	var opts []mpb.BarOption
	if c.Ewma {
		var ds []decor.Decorator
		for i := range recs {
			recs[i] = &recorder{}
			recs[i].WC = decor.WC{}
			recs[i].WC.Init()
			ds = append(ds, wrapDeep(recs[i], (c.Wrap+i)%4))
		}
		// plus the library's own moving-average decorators over recording averages:
		// what they hand to the estimator is the time per byte of every transfer, the
		// time of zero-byte transfers before it included
		app := append([]decor.Decorator{}, ds[:1]...)
		app = append(app,
			wrapDeep(decor.MovingAverageSpeed(0, "%.0f", speedAvg), c.Wrap%3),
			wrapDeep(decor.MovingAverageETA(decor.ET_STYLE_GO, etaAvg, nil), (c.Wrap+1)%3))
		opts = append(opts, mpb.AppendDecorators(app...))
		if len(ds) > 1 {
			opts = append(opts, mpb.PrependDecorators(ds[1:]...))
		}
	}
	rec := recs[0]
	bar := p.AddBar(c.Total, opts...)
	defer func() {
		bar.Abort(true)
		p.Wait()
	}()

	var calls []callRec
	var clientSide bytes.Buffer // bytes as seen by the client of the proxy
	var sum int64
	shape := fmt.Sprintf("%s/close=%v/fast=%v/ewma=%v", c.Dir, c.HasClose, c.HasFast, c.Ewma)

	if c.Dir == "read" {
		var r io.Reader
		switch {
		case c.HasClose && c.HasFast:
			r = rCloseFast{u}
		case c.HasClose:
			r = rClose{u}
		case c.HasFast:
			r = rFast{u}
		default:
			r = rPlain{u}
		}
		pr := bar.ProxyReader(r)
		if pr == nil {
			return "ProxyReader returned nil for a running bar", "nil:" + shape
		}
		if _, ok := pr.(io.WriterTo); ok != c.HasFast {
			return fmt.Sprintf("proxy offers WriteTo=%v but the wrapped reader offers it=%v", ok, c.HasFast), "fastpath:" + shape
		}
		if c.UseFast && c.HasFast {
			var inj int64
			var tot int64
			for _, s := range c.Steps {
				inj += s.Delay
				tot += int64(s.N)
			}
			t0 := time.Now()
			n, err := pr.(io.WriterTo).WriteTo(&clientSide)
			el := int64(time.Since(t0))
			// expected result of the scripted writeTo
			var wantErr error
			var wantN int64
			for _, s := range c.Steps {
				wantN += int64(s.N)
				if e := stepErr(s.Err); e != nil && e != io.EOF {
					wantErr = e
					break
				}
			}
			if n != wantN || err != wantErr {
				return fmt.Sprintf("WriteTo returned (%d,%v), under-layer returned (%d,%v)", n, err, wantN, wantErr), "result:" + shape
			}
			if u.fastN != 1 {
				return fmt.Sprintf("fast path called %d times for one WriteTo", u.fastN), "fastcalls:" + shape
			}
			calls = append(calls, callRec{n, inj, el})
			sum = n
		} else {
			for _, s := range c.Steps {
				buf := make([]byte, s.Buf)
				wantN := s.N
				if wantN > len(buf) {
					wantN = len(buf)
				}
				t0 := time.Now()
				n, err := pr.Read(buf)
				el := int64(time.Since(t0))
				if n != wantN || err != stepErr(s.Err) {
					return fmt.Sprintf("Read returned (%d,%v), under-layer returned (%d,%v)", n, err, wantN, stepErr(s.Err)), "result:" + shape
				}
				clientSide.Write(buf[:n])
				calls = append(calls, callRec{int64(n), s.Delay, el})
				sum += int64(n)
			}
		}
		if !bytes.Equal(clientSide.Bytes(), u.seen.Bytes()) {
			return fmt.Sprintf("bytes differ across the proxy: client saw %d bytes, under-layer produced %d", clientSide.Len(), u.seen.Len()), "bytes:" + shape
		}
		err := pr.Close()
		if c.CloseTwice {
			pr.Close()
		}
		wantCloses := 0
		if c.HasClose {
			wantCloses = 1
			if c.CloseTwice {
				wantCloses = 2
			}
			if err != errCustom {
				return fmt.Sprintf("Close returned %v, wrapped Close returned %v", err, errCustom), "close:" + shape
			}
		} else if err != nil {
			return fmt.Sprintf("Close on a reader without Close returned %v", err), "close:" + shape
		}
		if u.closes != wantCloses {
			return fmt.Sprintf("wrapped Close called %d times for %d proxy Close calls", u.closes, wantCloses), "close:" + shape
		}
	} else {
		var w io.Writer
		switch {
		case c.HasClose && c.HasFast:
			w = wCloseFast{u}
		case c.HasClose:
			w = wClose{u}
		case c.HasFast:
			w = wFast{u}
		default:
			w = wPlain{u}
		}
		pw := bar.ProxyWriter(w)
		if pw == nil {
			return "ProxyWriter returned nil for a running bar", "nil:" + shape
		}
		if _, ok := pw.(io.ReaderFrom); ok != c.HasFast {
			return fmt.Sprintf("proxy offers ReadFrom=%v but the wrapped writer offers it=%v", ok, c.HasFast), "fastpath:" + shape
		}
		if c.UseFast && c.HasFast {
			var src bytes.Buffer
			for _, s := range c.Steps {
				for k := 0; k < s.N; k++ {
					src.WriteByte(byte(src.Len()))
				}
			}
			want := append([]byte(nil), src.Bytes()...)
			// the source may fail after its data (a transfer that moved n > 0 bytes and then errored)
			var srcErr error
			for _, s := range c.Steps {
				if s.Err >= 2 {
					srcErr = errCustom
				}
			}
			t0 := time.Now()
			n, err := pw.(io.ReaderFrom).ReadFrom(&failingReader{r: &src, err: srcErr})
			el := int64(time.Since(t0))
			if n != int64(len(want)) || err != srcErr {
				return fmt.Sprintf("ReadFrom returned (%d,%v), under-layer returned (%d,%v)", n, err, len(want), srcErr), "result:" + shape
			}
			if !bytes.Equal(u.seen.Bytes(), want) {
				return "bytes differ across the proxy (ReadFrom)", "bytes:" + shape
			}
			if u.fastN != 1 {
				return fmt.Sprintf("fast path called %d times for one ReadFrom", u.fastN), "fastcalls:" + shape
			}
			calls = append(calls, callRec{n, 0, el})
			sum = n
		} else {
			var sent bytes.Buffer
			for _, s := range c.Steps {
				buf := make([]byte, s.Buf)
				for k := range buf {
					buf[k] = byte(sent.Len() + k)
				}
				wantN := s.N
				if wantN > len(buf) {
					wantN = len(buf)
				}
				t0 := time.Now()
				n, err := pw.Write(buf)
				el := int64(time.Since(t0))
				if n != wantN || err != stepErr(s.Err) {
					return fmt.Sprintf("Write returned (%d,%v), under-layer returned (%d,%v)", n, err, wantN, stepErr(s.Err)), "result:" + shape
				}
				sent.Write(buf[:n])
				calls = append(calls, callRec{int64(n), s.Delay, el})
				sum += int64(n)
			}
			if !bytes.Equal(sent.Bytes(), u.seen.Bytes()) {
				return "bytes differ across the proxy (Write)", "bytes:" + shape
			}
		}
		err := pw.Close()
		wantCloses := 0
		if c.HasClose {
			wantCloses = 1
			if err != errCustom {
				return fmt.Sprintf("Close returned %v, wrapped Close returned %v", err, errCustom), "close:" + shape
			}
		} else if err != nil {
			return fmt.Sprintf("Close on a writer without Close returned %v", err), "close:" + shape
		}
		if u.closes != wantCloses {
			return fmt.Sprintf("wrapped Close called %d times for %d proxy Close calls", u.closes, wantCloses), "close:" + shape
		}
	}

	// accounting
	want := sum
	if c.Total > 0 && sum >= c.Total {
		want = c.Total
	}
	if cur := bar.Current(); cur != want {
		return fmt.Sprintf("bar advanced to %d, %d bytes were transferred (total %d)", cur, sum, c.Total), "count:" + shape
	}
	if c.Total > 0 && sum >= c.Total && !bar.Completed() {
		return fmt.Sprintf("%d bytes of %d transferred but bar not completed", sum, c.Total), "count:" + shape
	}
	for ri := 0; c.Ewma && ri < len(recs); ri++ {
		rec = recs[ri]
		got := rec.get()
		// calls up to and including the completing one must be delivered
		must := len(calls)
		if c.Total > 0 {
			var acc int64
			for i, cl := range calls {
				acc += cl.n
				if acc >= c.Total {
					must = i + 1
					break
				}
			}
		}
		if len(got) < must || len(got) > len(calls) {
			return fmt.Sprintf("moving-average decorator (wrapped %d deep) received %d samples for %d transfers (%d before completion)", c.Wrap, len(got), len(calls), must), fmt.Sprintf("samples:%s/wrap%d", shape, c.Wrap)
		}
		for i := 0; i < must; i++ {
			if got[i].N != calls[i].n {
				return fmt.Sprintf("sample %d carries n=%d, transfer moved %d bytes", i, got[i].N, calls[i].n), "samplen:" + shape
			}
			if got[i].D < calls[i].injected || got[i].D > calls[i].measured {
				return fmt.Sprintf("sample %d carries duration %v, the transfer took between %v (injected) and %v (measured around the proxy call)", i, time.Duration(got[i].D), time.Duration(calls[i].injected), time.Duration(calls[i].measured)), "sampledur:" + shape
			}
		}
	}
	// the library's speed / ETA decorators: one value per transfer that moved bytes,
	// value x bytes = the time since the previous such transfer (zero-byte transfers
	// carried in), bounded by the injected and the measured durations
	for name, av := range map[string]*fixedAvg{"MovingAverageSpeed": speedAvg, "MovingAverageETA": etaAvg} {
		if !c.Ewma {
			break
		}
		added := av.samples()
		must := len(calls)
		if c.Total > 0 {
			var acc int64
			for i, cl := range calls {
				acc += cl.n
				if acc >= c.Total {
					must = i + 1
					break
				}
			}
		}
		k := 0
		var inj, meas int64
		for i, cl := range calls {
			inj += cl.injected
			meas += cl.measured
			if cl.n <= 0 {
				continue
			}
			if k >= len(added) {
				if i < must {
					return fmt.Sprintf("%s received %d values from the library for the first %d transfers, of which more moved bytes", name, len(added), i+1), "libavg-count:" + shape
				}
				break
			}
			took := added[k] * float64(cl.n)
			if took < float64(inj)*(1-1e-9)-1 || took > float64(meas)*(1+1e-9)+1 {
				return fmt.Sprintf("%s: value %d handed to the estimator is %v ns per byte for a transfer of %d bytes, i.e. %v in all; since the previous transfer that moved bytes between %v (injected) and %v (measured around the proxy calls) went by, zero-byte transfers included", name, k, added[k], cl.n, time.Duration(took), time.Duration(inj), time.Duration(meas)), "libavg-time:" + shape
			}
			k++
			inj, meas = 0, 0
		}
	}
	return "", ""
}

func genC19(r *common.Rng, combo int) c19Case {
	c := c19Case{Dir: []string{"read", "write"}[combo&1], HasClose: combo&2 != 0, HasFast: combo&4 != 0, Ewma: combo&8 != 0}
	c.UseFast = c.HasFast && r.Bool()
	c.Wrap = r.Intn(4)
	c.Mode = r.PickS("none", "none", "auto")
	c.CloseTwice = c.Dir == "read" && r.Chance(1, 6)
	n := r.Range(1, 50)
	if r.Chance(1, 2) {
		n = r.Range(1, 6)
	}
	var sum int64
	errAt := -1
	if r.Chance(1, 2) {
		errAt = r.Intn(n)
	}
	for i := 0; i < n; i++ {
		s := ioStep{Buf: r.Pick(0, 1, 7, 64, 512, 4096)}
		switch r.Intn(5) {
		case 0:
			s.N = 0
		case 1:
			s.N = s.Buf
		default:
			s.N = r.Intn(s.Buf + 1)
		}
		if c.UseFast {
			s.N = r.Intn(300)
		}
		if r.Chance(1, 5) {
			s.Delay = int64(r.Range(1, 300)) * 1000
		}
		if i == errAt {
			s.Err = r.Range(1, 3)
			if c.Dir == "read" && s.Err == 3 {
				s.Err = 2
			}
			if c.UseFast && s.Err == 1 {
				s.Err = 2
			}
		}
		c.Steps = append(c.Steps, s)
		n2 := s.N
		if n2 > s.Buf && !c.UseFast {
			n2 = s.Buf
		}
		sum += int64(n2)
		if c.UseFast && s.Err >= 2 {
			break
		}
	}
	switch r.Intn(5) {
	case 0:
		c.Total = 0
	case 1:
		c.Total = -1
	case 2:
		c.Total = sum
	case 3:
		c.Total = sum/2 + 1
	default:
		c.Total = sum + 1 + r.I64n(1000)
	}
	return c
}

func runC19(job common.Job, em *emitter) {
	for idx := job.From; idx < job.To; idx++ {
		em.Begin(idx, map[string]interface{}{"part": job.Part, "chunk": idx})
		acc := newChunk("C19", job.Part, idx)
		one := func(c c19Case) {
			acc.res.Evals++
			msg, key := runC19Case(c)
			var moved int
			for _, s := range c.Steps {
				moved += s.N
			}
			if moved > 0 {
				acc.res.NonTrivial++
				acc.sigs.add(c)
			}
			acc.res.Obs["transfers"] += int64(len(c.Steps))
			if msg != "" {
				acc.viol(msg, key, c)
			} else if len(c.Steps) > 2 && c.Ewma {
				acc.sample(map[string]interface{}{"case": c, "observed": "bytes, n, err and Close identical on both sides; Current equals the capped byte count; every transfer reached the recorder with a duration inside its interval"})
			}
		}
		if job.Replay != "" {
			var rc struct {
				Replay struct {
					Case c19Case `json:"case"`
				} `json:"replay"`
			}
			readReplay(job.Replay, &rc)
			one(rc.Replay.Case)
			acc.finish(em)
			continue
		}
		rng := common.NewRng(common.H(job.Seed, "C19", job.Part, idx))
		for k := 0; k < 320; k++ {
			one(genC19(rng, k%16)) // all 2^3 interface shapes x ewma, cycled
		}
		acc.finish(em)
	}
}
