// vmut: mechanical mutation of the library's source, used only to measure the
// checks (DESIGN.md section 14). It never runs as part of a registered check.
//
//	vmut list  <repo>            one line per mutation site: index, file:line, operator, detail
//	vmut apply <repo> <index>    rewrites the one file in place (the caller restores it)
//
// Edits are made at byte offsets taken from the parsed file, so a mutant is a
// minimal textual change; mutants that do not compile are discarded by the caller.
package main

import (
	"fmt"
	"go/ast"
	"go/parser"
	"go/token"
	"os"
	"path/filepath"
	"sort"
	"strconv"
	"strings"
)

type site struct {
	File     string
	Line     int
	Op       string
	Detail   string
	From, To int // byte range replaced
	With     string
}

var files = []string{
	"bar.go", "bar_filler.go", "bar_filler_bar.go", "bar_filler_nop.go", "bar_filler_spinner.go",
	"bar_option.go", "container_option.go", "heap_manager.go", "priority_queue.go", "progress.go",
	"proxyreader.go", "proxywriter.go",
	"cwriter/writer.go", "cwriter/writer_posix.go", "cwriter/util_linux.go",
	"internal/percentage.go", "internal/width.go",
	"decor/any.go", "decor/counters.go", "decor/decorator.go", "decor/elapsed.go", "decor/eta.go",
	"decor/meta.go", "decor/moving_average.go", "decor/name.go", "decor/on_abort.go",
	"decor/on_compete_or_on_abort.go", "decor/on_complete.go", "decor/on_condition.go",
	"decor/percentage.go", "decor/size_type.go", "decor/speed.go", "decor/spinner.go",
}

var swaps = map[token.Token][]token.Token{
	token.LSS:  {token.LEQ, token.GEQ},
	token.LEQ:  {token.LSS, token.GTR},
	token.GTR:  {token.GEQ, token.LEQ},
	token.GEQ:  {token.GTR, token.LSS},
	token.EQL:  {token.NEQ},
	token.NEQ:  {token.EQL},
	token.ADD:  {token.SUB},
	token.SUB:  {token.ADD},
	token.MUL:  {token.QUO},
	token.QUO:  {token.MUL},
	token.LAND: {token.LOR},
	token.LOR:  {token.LAND},
	token.REM:  {token.QUO},
	token.SHL:  {token.SHR},
	token.SHR:  {token.SHL},
}

func isHook(e ast.Expr) bool {
	c, ok := e.(*ast.CallExpr)
	if !ok {
		return false
	}
	id, ok := c.Fun.(*ast.Ident)
	return ok && (id.Name == "vhook" || id.Name == "verifErrFlag")
}

func collect(repo string) []site {
	var out []site
	for _, rel := range files {
		path := filepath.Join(repo, rel)
		src, err := os.ReadFile(path)
		if err != nil {
			continue
		}
		fset := token.NewFileSet()
		f, err := parser.ParseFile(fset, path, src, 0)
		if err != nil {
			fmt.Fprintln(os.Stderr, "parse:", err)
			os.Exit(2)
		}
		off := func(p token.Pos) int { return fset.Position(p).Offset }
		line := func(p token.Pos) int { return fset.Position(p).Line }
		text := func(a, b token.Pos) string { return string(src[off(a):off(b)]) }
		add := func(p token.Pos, op, detail string, from, to int, with string) {
			out = append(out, site{rel, line(p), op, detail, from, to, with})
		}
		short := func(s string) string {
			s = strings.Join(strings.Fields(s), " ")
			if len(s) > 70 {
				s = s[:70] + "..."
			}
			return s
		}
		ast.Inspect(f, func(n ast.Node) bool {
			switch x := n.(type) {
			case *ast.BinaryExpr:
				for _, t := range swaps[x.Op] {
					// string concatenation: "-" would not compile; harmless
					add(x.OpPos, "binop", fmt.Sprintf("%s -> %s in %s", x.Op, t, short(text(x.Pos(), x.End()))),
						off(x.OpPos), off(x.OpPos)+len(x.Op.String()), t.String())
				}
			case *ast.IfStmt:
				add(x.Cond.Pos(), "negcond", short(text(x.Cond.Pos(), x.Cond.End())),
					off(x.Cond.Pos()), off(x.Cond.End()), "!("+text(x.Cond.Pos(), x.Cond.End())+")")
			case *ast.ForStmt:
				if x.Cond != nil {
					add(x.Cond.Pos(), "forfalse", short(text(x.Cond.Pos(), x.Cond.End())),
						off(x.Cond.Pos()), off(x.Cond.End()), "false && "+text(x.Cond.Pos(), x.Cond.End()))
				}
			case *ast.BlockStmt:
				for _, s := range x.List {
					del := func(op string) {
						add(s.Pos(), op, short(text(s.Pos(), s.End())), off(s.Pos()), off(s.End()), "")
					}
					switch st := s.(type) {
					case *ast.ExprStmt:
						if !isHook(st.X) {
							del("delstmt")
						}
					case *ast.AssignStmt:
						if st.Tok != token.DEFINE {
							del("delassign")
						}
					case *ast.IncDecStmt:
						del("delincdec")
						w := "--"
						if st.Tok == token.DEC {
							w = "++"
						}
						add(s.Pos(), "incdec", short(text(s.Pos(), s.End())), off(st.TokPos), off(st.TokPos)+2, w)
					case *ast.SendStmt:
						del("delsend")
					case *ast.DeferStmt:
						del("deldefer")
					case *ast.GoStmt:
						if _, lit := st.Call.Fun.(*ast.FuncLit); !lit {
							add(s.Pos(), "nogo", short(text(s.Pos(), s.End())), off(st.Go), off(st.Call.Pos()), "")
						}
					case *ast.ReturnStmt:
						// nothing
					case *ast.BranchStmt:
						if st.Label == nil && st.Tok == token.BREAK {
							add(s.Pos(), "brk2cont", "break -> continue", off(s.Pos()), off(s.End()), "continue")
						} else if st.Label == nil && st.Tok == token.CONTINUE {
							add(s.Pos(), "cont2brk", "continue -> break", off(s.Pos()), off(s.End()), "break")
						}
					}
				}
			case *ast.CaseClause:
				for _, s := range x.Body {
					if st, ok := s.(*ast.ExprStmt); ok && !isHook(st.X) {
						add(s.Pos(), "delstmt", short(text(s.Pos(), s.End())), off(s.Pos()), off(s.End()), "")
					}
					if st, ok := s.(*ast.AssignStmt); ok && st.Tok != token.DEFINE {
						add(s.Pos(), "delassign", short(text(s.Pos(), s.End())), off(s.Pos()), off(s.End()), "")
					}
				}
			case *ast.CommClause:
				for _, s := range x.Body {
					if st, ok := s.(*ast.ExprStmt); ok && !isHook(st.X) {
						add(s.Pos(), "delstmt", short(text(s.Pos(), s.End())), off(s.Pos()), off(s.End()), "")
					}
					if st, ok := s.(*ast.AssignStmt); ok && st.Tok != token.DEFINE {
						add(s.Pos(), "delassign", short(text(s.Pos(), s.End())), off(s.Pos()), off(s.End()), "")
					}
				}
			case *ast.BasicLit:
				if x.Kind == token.INT {
					v, err := strconv.ParseInt(x.Value, 0, 64)
					if err == nil {
						add(x.Pos(), "intlit", fmt.Sprintf("%s -> %d", x.Value, v+1), off(x.Pos()), off(x.End()), strconv.FormatInt(v+1, 10))
						if v > 0 {
							add(x.Pos(), "intlit", fmt.Sprintf("%s -> %d", x.Value, v-1), off(x.Pos()), off(x.End()), strconv.FormatInt(v-1, 10))
						}
					}
				}
			case *ast.Ident:
				if x.Name == "true" {
					add(x.Pos(), "boollit", "true -> false", off(x.Pos()), off(x.End()), "false")
				} else if x.Name == "false" {
					add(x.Pos(), "boollit", "false -> true", off(x.Pos()), off(x.End()), "true")
				}
			case *ast.UnaryExpr:
				if x.Op == token.NOT {
					add(x.Pos(), "dropnot", short(text(x.Pos(), x.End())), off(x.OpPos), off(x.OpPos)+1, "")
				}
			}
			return true
		})
	}
	sort.SliceStable(out, func(i, j int) bool {
		if out[i].File != out[j].File {
			return out[i].File < out[j].File
		}
		return out[i].From < out[j].From
	})
	return out
}

func main() {
	if len(os.Args) < 3 {
		fmt.Fprintln(os.Stderr, "usage: vmut list <repo> | vmut apply <repo> <index>")
		os.Exit(2)
	}
	sites := collect(os.Args[2])
	switch os.Args[1] {
	case "list":
		for i, s := range sites {
			fmt.Printf("%d\t%s:%d\t%s\t%s\n", i, s.File, s.Line, s.Op, s.Detail)
		}
	case "apply":
		i, err := strconv.Atoi(os.Args[3])
		if err != nil || i < 0 || i >= len(sites) {
			fmt.Fprintln(os.Stderr, "bad index")
			os.Exit(2)
		}
		s := sites[i]
		path := filepath.Join(os.Args[2], s.File)
		src, _ := os.ReadFile(path)
		dst := append([]byte{}, src[:s.From]...)
		dst = append(dst, s.With...)
		dst = append(dst, src[s.To:]...)
		if err := os.WriteFile(path, dst, 0o644); err != nil {
			fmt.Fprintln(os.Stderr, err)
			os.Exit(2)
		}
		fmt.Printf("%s:%d\t%s\t%s\n", s.File, s.Line, s.Op, s.Detail)
	}
}
