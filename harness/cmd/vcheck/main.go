// vcheck is the driver behind every quick_cmd / thorough_cmd of MANIFEST.json.
//
//	vcheck run <Cxx> <quick|thorough>   (env VERIF_SEED)
//	vcheck replay <file>
//	vcheck selftest                      (emulator golden vectors etc.)
//
// It does not link the library under test. It rebuilds the worker from
// /repo's current working tree (harness go.mod: replace => /repo, -tags
// verif), fans seeded index ranges out to worker child processes, attributes
// crashes and hangs to the scenario logged last, aggregates verdicts, matches
// violations against KNOWN_FINDINGS.jsonl and writes evidence/<Cxx>.json.
package main

import (
	"bufio"
	"bytes"
	"encoding/json"
	"fmt"
	"os"
	"os/exec"
	"path/filepath"
	"regexp"
	"sort"
	"strconv"
	"strings"
	"sync"
	"syscall"
	"time"

	"verif/harness/internal/common"
	"verif/harness/internal/vterm"
)

// verifRoot is /verif; background sweeps started from a snapshot (vp run) set
// VERIF_ROOT to the snapshot directory so that they do not disturb /verif.
var verifRoot = func() string {
	if r := os.Getenv("VERIF_ROOT"); r != "" {
		return r
	}
	return "/verif"
}()

func main() {
	if len(os.Args) < 2 {
		usage()
	}
	switch os.Args[1] {
	case "run":
		if len(os.Args) < 4 {
			usage()
		}
		os.Exit(runCheck(os.Args[2], os.Args[3]))
	case "replay":
		if len(os.Args) < 3 {
			usage()
		}
		os.Exit(runReplay(os.Args[2]))
	case "selftest":
		os.Exit(selftest())
	default:
		usage()
	}
}

func usage() {
	fmt.Fprintln(os.Stderr, "usage: vcheck run <Cxx> <quick|thorough> | vcheck replay <file> | vcheck selftest")
	os.Exit(2)
}

func selftest() int {
	if err := vterm.SelfTest(); err != nil {
		fmt.Println("selftest FAILED:", err)
		return 1
	}
	fmt.Println("selftest ok")
	return 0
}

// ---------------------------------------------------------------- build

func goEnv() []string {
	env := os.Environ()
	env = append(env, "GOFLAGS=-mod=mod", "GOPROXY=off", "GOSUMDB=off", "GOTOOLCHAIN=local", "CGO_ENABLED=1")
	return env
}

type builder struct {
	mu   sync.Mutex
	dir  string
	bins map[string]string
}

func (b *builder) get(race bool, toolchain string) (string, error) {
	b.mu.Lock()
	defer b.mu.Unlock()
	key := fmt.Sprintf("%v-%s", race, toolchain)
	if p, ok := b.bins[key]; ok {
		return p, nil
	}
	out := filepath.Join(b.dir, "vworker-"+key)
	gobin := "go"
	if toolchain != "" {
		gobin = toolchain
	}
	args := []string{"build", "-tags", "verif", "-o", out}
	if race {
		args = append(args, "-race")
	}
	args = append(args, "./cmd/vworker")
	cmd := exec.Command(gobin, args...)
	cmd.Dir = filepath.Join(verifRoot, "harness")
	cmd.Env = goEnv()
	if os.Getenv("VERIF_COVER") != "" {
		// Reach measurement (tools/coverage.sh): statement coverage of the library under the
		// monitors. `-coverpkg` instruments nothing of a module that is only `replace`d in, so
		// the worker is built in workspace mode, where the library is a main module as well.
		repo := "/repo"
		if gm, err := os.ReadFile(filepath.Join(verifRoot, "harness", "go.mod")); err == nil {
			if m := regexp.MustCompile(`(?m)=>\s*(/\S+)`).FindSubmatch(gm); m != nil {
				repo = string(m[1])
			}
		}
		work := filepath.Join(b.dir, "go.work")
		_ = os.WriteFile(work, []byte("go 1.23\n\nuse "+filepath.Join(verifRoot, "harness")+"\nuse "+repo+"\n"), 0o644)
		cmd.Args = append(cmd.Args[:len(cmd.Args)-1], "-cover", "-covermode=atomic", "./cmd/vworker")
		cmd.Env = append(cmd.Env, "GOWORK="+work, "GOFLAGS=")
	}
	var buf bytes.Buffer
	cmd.Stdout, cmd.Stderr = &buf, &buf
	if err := cmd.Run(); err != nil {
		return "", fmt.Errorf("building worker (race=%v, toolchain=%q) from /repo failed: %v\n%s", race, toolchain, err, buf.String())
	}
	b.bins[key] = out
	return out, nil
}

// ---------------------------------------------------------------- running jobs

type jobOutcome struct {
	job      common.Job
	results  []common.Result
	crashed  bool   // child died (panic / fatal / killed) while a case was open
	crashIdx int    // index of the open case
	crashSc  []byte // its scenario JSON if logged
	stderr   string
	timedOut bool
	restart  bool // child asked to be restarted after idx (exit code 7)
	lastIdx  int  // last index with a begin record
	complete bool
}

func workerEnv() []string {
	env := []string{}
	for _, e := range os.Environ() {
		if strings.HasPrefix(e, "LC_") || strings.HasPrefix(e, "LANG") || strings.HasPrefix(e, "RUNEWIDTH_") || strings.HasPrefix(e, "GOTRACEBACK") || strings.HasPrefix(e, "GORACE") || strings.HasPrefix(e, "GOMAXPROCS") {
			continue
		}
		env = append(env, e)
	}
	env = append(env, "LC_ALL=C", "LANG=C", "RUNEWIDTH_EASTASIAN=0", "GOTRACEBACK=all")
	if d := os.Getenv("VERIF_COVER"); d != "" {
		env = append(env, "GOCOVERDIR="+d)
	}
	return env
}

func runJob(bin string, job common.Job, workdir string, seq int, timeout time.Duration) jobOutcome {
	oc := jobOutcome{job: job, crashIdx: -1, lastIdx: job.From - 1}
	base := filepath.Join(workdir, fmt.Sprintf("job-%05d", seq))
	outPath, errPath := base+".jsonl", base+".stderr"
	jb, _ := json.Marshal(job)
	cmd := exec.Command(bin, "-job", string(jb), "-out", outPath)
	env := workerEnv()
	if job.Race {
		env = append(env, "GORACE=halt_on_error=0 log_path="+base+".race")
	}
	cmd.Env = env
	ef, _ := os.Create(errPath)
	cmd.Stdout, cmd.Stderr = ef, ef
	cmd.SysProcAttr = &syscall.SysProcAttr{Setpgid: true}
	if err := cmd.Start(); err != nil {
		oc.crashed = true
		oc.stderr = "start: " + err.Error()
		return oc
	}
	done := make(chan error, 1)
	go func() { done <- cmd.Wait() }()
	var werr error
	select {
	case werr = <-done:
	case <-time.After(timeout):
		oc.timedOut = true
		_ = syscall.Kill(-cmd.Process.Pid, syscall.SIGQUIT)
		select {
		case werr = <-done:
		case <-time.After(5 * time.Second):
			_ = syscall.Kill(-cmd.Process.Pid, syscall.SIGKILL)
			werr = <-done
		}
	}
	ef.Close()
	// parse output
	open := -1
	var openSc []byte
	if f, err := os.Open(outPath); err == nil {
		sc := bufio.NewScanner(f)
		sc.Buffer(make([]byte, 1<<20), 256<<20)
		for sc.Scan() {
			line := sc.Bytes()
			var head struct {
				T string `json:"t"`
				I int    `json:"i"`
			}
			if json.Unmarshal(line, &head) != nil {
				continue
			}
			switch head.T {
			case "begin":
				var b common.Begin
				_ = json.Unmarshal(line, &b)
				open, openSc = b.Idx, append([]byte(nil), b.Sc...)
				oc.lastIdx = b.Idx
			case "res":
				var r common.Result
				if json.Unmarshal(line, &r) == nil {
					oc.results = append(oc.results, r)
					if r.Idx == open {
						open = -1
					}
				}
			case "done":
				oc.complete = true
			}
		}
		f.Close()
	}
	eb, _ := os.ReadFile(errPath)
	if len(eb) > 1<<20 {
		eb = append(eb[:1<<19:1<<19], eb[len(eb)-(1<<19):]...)
	}
	oc.stderr = string(eb)
	code := 0
	if werr != nil {
		code = -1
		if ee, ok := werr.(*exec.ExitError); ok {
			code = ee.ExitCode()
		}
	}
	if code == 7 {
		oc.restart = true
	} else if (code != 0 || !oc.complete) && open >= 0 {
		oc.crashed, oc.crashIdx, oc.crashSc = true, open, openSc
	} else if code != 0 && !oc.complete {
		oc.crashed = true
		oc.crashIdx = oc.lastIdx + 1
	}
	if job.Race {
		// collect race logs
		matches, _ := filepath.Glob(base + ".race.*")
		for _, m := range matches {
			b, _ := os.ReadFile(m)
			oc.stderr += "\n" + string(b)
		}
	}
	return oc
}

// ---------------------------------------------------------------- known findings

type finding struct {
	Status   string `json:"status"` // known | fixed
	Property string `json:"property"`
	Key      string `json:"key"` // regexp over Result.Key
	What     string `json:"what"`
	Commit   string `json:"commit,omitempty"`
	re       *regexp.Regexp
	hits     int
}

func loadFindings() []*finding {
	var out []*finding
	f, err := os.Open(filepath.Join(verifRoot, "KNOWN_FINDINGS.jsonl"))
	if err != nil {
		return nil
	}
	defer f.Close()
	sc := bufio.NewScanner(f)
	sc.Buffer(make([]byte, 1<<16), 1<<22)
	for sc.Scan() {
		line := strings.TrimSpace(sc.Text())
		if line == "" || strings.HasPrefix(line, "#") {
			continue
		}
		var fd finding
		if json.Unmarshal([]byte(line), &fd) != nil {
			continue
		}
		if fd.Status == "known" && fd.Key != "" {
			re, err := regexp.Compile(fd.Key)
			if err != nil {
				continue
			}
			fd.re = re
		}
		out = append(out, &fd)
	}
	return out
}

// ---------------------------------------------------------------- check run

type violation struct {
	Msg     string
	Key     string
	Replay  json.RawMessage
	Witness string
	Part    string
	Idx     int
	Race    bool
	Procs   int
}

func seedFromEnv() uint64 {
	s := os.Getenv("VERIF_SEED")
	if s == "" {
		return 1
	}
	if v, err := strconv.ParseUint(s, 10, 64); err == nil {
		return v
	}
	if v, err := strconv.ParseInt(s, 10, 64); err == nil {
		return uint64(v)
	}
	return common.H(0, s)
}

func runCheck(prop, tier string) int {
	start := time.Now()
	if tier != "quick" && tier != "thorough" {
		usage()
	}
	if t := os.Getenv("VERIF_TIER"); t == "quick" || t == "thorough" {
		// VERIF_TIER never downgrades an explicit thorough command
		if tier == "quick" {
			tier = t
		}
	}
	seed := seedFromEnv()
	parts := plan(prop, tier)
	if only := os.Getenv("VERIF_PARTS"); only != "" && parts != nil { // debugging aid: restrict to some parts
		var keep []Part
		for _, p := range parts {
			for _, o := range strings.Split(only, ",") {
				if p.Name == o {
					keep = append(keep, p)
				}
			}
		}
		parts = keep
	}
	if parts == nil {
		fmt.Fprintf(os.Stderr, "no check registered for %s\n", prop)
		return 2
	}
	{
		var keep []Part
		for _, p := range parts {
			if p.N > 0 {
				keep = append(keep, p)
			}
		}
		parts = keep
	}
	_ = os.MkdirAll(filepath.Join(verifRoot, ".work"), 0o755)
	workdir, err := os.MkdirTemp(filepath.Join(verifRoot, ".work"), prop+"-")
	if err != nil {
		fmt.Fprintln(os.Stderr, err)
		return 2
	}
	defer os.RemoveAll(workdir)
	bld := &builder{dir: workdir, bins: map[string]string{}}

	// build everything first so that a build failure is reported plainly
	for _, p := range parts {
		if _, err := bld.get(p.Race, p.Toolchain); err != nil {
			fmt.Fprintln(os.Stderr, err)
			fmt.Printf("BUILD-FAILED property=%s (worker does not build against /repo's working tree)\n", prop)
			return 2
		}
	}

	type qjob struct {
		job     common.Job
		bin     string
		timeout time.Duration
		part    *Part
	}
	var queue []qjob
	for pi := range parts {
		p := &parts[pi]
		bin, _ := bld.get(p.Race, p.Toolchain)
		procs := p.Procs
		if len(procs) == 0 {
			procs = []int{4}
		}
		k := 0
		for from := 0; from < p.N; from += p.Chunk {
			to := common.MinInt(from+p.Chunk, p.N)
			queue = append(queue, qjob{
				job:     common.Job{Prop: prop, Tier: tier, Seed: seed, From: from, To: to, Part: p.Name, Race: p.Race, Procs: procs[k%len(procs)]},
				bin:     bin,
				timeout: p.Timeout,
				part:    p,
			})
			k++
		}
	}

	var mu sync.Mutex
	var outcomes []jobOutcome
	par := 14
	if v := os.Getenv("VERIF_PAR"); v != "" {
		if n, err := strconv.Atoi(v); err == nil && n > 0 {
			par = n
		}
	}
	sem := make(chan struct{}, par)
	var wg sync.WaitGroup
	seq := 0
	var submit func(q qjob)
	submit = func(q qjob) {
		wg.Add(1)
		mu.Lock()
		seq++
		myseq := seq
		mu.Unlock()
		go func() {
			defer wg.Done()
			sem <- struct{}{}
			oc := runJob(q.bin, q.job, workdir, myseq, q.timeout)
			<-sem
			mu.Lock()
			outcomes = append(outcomes, oc)
			mu.Unlock()
			// re-queue the remainder after a crash / restart / timeout
			next := -1
			if oc.crashed && oc.crashIdx >= 0 {
				next = oc.crashIdx + 1
			} else if oc.restart || oc.timedOut {
				next = oc.lastIdx + 1
			}
			if next >= 0 && next < q.job.To && next > q.job.From-1 {
				nq := q
				nq.job.From = next
				submit(nq)
			}
		}()
	}
	for _, q := range queue {
		submit(q)
	}
	wg.Wait()

	// ------------------------------------------------------------ aggregate
	var evals, conclusive, inconclusive, crashes, nontrivial int
	sigs := map[string]struct{}{}
	obs := map[string]int64{}
	var samples []json.RawMessage
	var viols []violation
	var inconcMsgs []string
	raceReports := 0
	inconcFiles := 0
	sort.Slice(outcomes, func(i, j int) bool {
		if outcomes[i].job.Part != outcomes[j].job.Part {
			return outcomes[i].job.Part < outcomes[j].job.Part
		}
		return outcomes[i].job.From < outcomes[j].job.From
	})
	for _, oc := range outcomes {
		for _, r := range oc.results {
			evals += r.Evals
			switch r.Status {
			case common.Held:
				conclusive += r.Evals
			case common.Violated:
				conclusive += r.Evals
				viols = append(viols, violation{r.Msg, r.Key, r.Replay, r.Witness, oc.job.Part, r.Idx, oc.job.Race, oc.job.Procs})
			default:
				inconclusive += r.Evals
				if len(inconcMsgs) < 10 {
					inconcMsgs = append(inconcMsgs, fmt.Sprintf("%s[%d]: %s", oc.job.Part, r.Idx, r.Msg))
				}
				if len(r.Replay) > 0 && inconcFiles < 6 {
					inconcFiles++
					rf := map[string]interface{}{"property": prop, "tier": tier, "seed": seed, "part": oc.job.Part, "index": r.Idx, "race": oc.job.Race, "procs": oc.job.Procs, "status": "inconclusive", "message": r.Msg, "replay": r.Replay, "witness": r.Witness}
					b, _ := json.MarshalIndent(rf, "", " ")
					_ = os.MkdirAll(filepath.Join(verifRoot, "replays"), 0o755)
					_ = os.WriteFile(filepath.Join(verifRoot, "replays", fmt.Sprintf("%s-%d-inconclusive-%d.json", prop, seed, inconcFiles)), b, 0o644)
				}
			}
			for _, x := range r.Extra {
				viols = append(viols, violation{x.Msg, x.Key, x.Replay, x.Witness, oc.job.Part, r.Idx, oc.job.Race, oc.job.Procs})
			}
			nontrivial += r.NonTrivial
			for _, s := range r.Sigs {
				sigs[s] = struct{}{}
			}
			for k, v := range r.Obs {
				obs[k] += v
			}
			if len(r.Sample) > 0 && len(samples) < 4 {
				samples = append(samples, r.Sample)
			}
		}
		if oc.crashed {
			crashes++
			v, isViol := classifyCrash(prop, oc)
			if isViol {
				viols = append(viols, v)
				evals++
				conclusive++
			} else {
				inconclusive++
				if len(inconcMsgs) < 10 {
					inconcMsgs = append(inconcMsgs, fmt.Sprintf("%s[%d]: worker died: %s", oc.job.Part, oc.crashIdx, firstLines(oc.stderr, 3)))
				}
			}
		} else if oc.timedOut {
			inconclusive++
			if len(inconcMsgs) < 10 {
				inconcMsgs = append(inconcMsgs, fmt.Sprintf("%s[%d]: driver watchdog fired (inconclusive)", oc.job.Part, oc.lastIdx))
			}
		}
		if oc.job.Race {
			rv := raceViolations(prop, oc)
			raceReports += len(rv)
			viols = append(viols, rv...)
		}
	}
	obs["race_reports_with_library_frame"] += int64(raceReports)

	// ------------------------------------------------------------ findings
	findings := loadFindings()
	exit := 0
	_ = os.MkdirAll(filepath.Join(verifRoot, "replays"), 0o755)
	unlisted := 0
	printed := 0
	seenKeys := map[string]int{}
	for vi, v := range viols {
		matched := false
		for _, f := range findings {
			if f.Status == "known" && f.Property == prop && f.re != nil && f.re.MatchString(v.Key) {
				f.hits++
				matched = true
				break
			}
		}
		if matched {
			continue
		}
		unlisted++
		seenKeys[v.Key]++
		if seenKeys[v.Key] > 3 || printed >= 12 {
			continue // same failure class: keep the report readable
		}
		printed++
		path := filepath.Join(verifRoot, "replays", fmt.Sprintf("%s-%d-%d.json", prop, seed, vi))
		rf := map[string]interface{}{
			"property": prop, "tier": tier, "seed": seed, "part": v.Part, "index": v.Idx,
			"race": v.Race, "procs": v.Procs, "key": v.Key, "message": v.Msg, "replay": v.Replay, "witness": v.Witness,
		}
		b, _ := json.MarshalIndent(rf, "", " ")
		_ = os.WriteFile(path, b, 0o644)
		fmt.Printf("VIOLATION property=%s replay=%s\n", prop, path)
		fmt.Printf("  key=%s\n  %s\n", v.Key, oneLine(v.Msg, 400))
		exit = 1
	}
	if unlisted > printed {
		fmt.Printf("  (%d further violations suppressed; classes seen:", unlisted-printed)
		var ks []string
		for k := range seenKeys {
			ks = append(ks, k)
		}
		sort.Strings(ks)
		for _, k := range ks {
			fmt.Printf(" %s x%d;", k, seenKeys[k])
		}
		fmt.Println(")")
	}
	for _, f := range findings {
		if f.Status == "known" && f.Property == prop {
			fmt.Printf("KNOWN-FINDING: property=%s %s (matched %d time(s) in this run)\n", prop, f.What, f.hits)
		}
	}

	minConclusive := 2
	status := "held"
	if exit == 1 {
		status = "violated"
	} else if conclusive < minConclusive || len(sigs) < 2 || 3*inconclusive > evals {
		// also when more than a third of the cases could not be decided (watchdogs,
		// dead workers): "held" would then speak for a minority of what was tried
		status = "inconclusive"
		exit = 3
	}

	// ------------------------------------------------------------ evidence
	if len(samples) == 0 {
		samples = append(samples, json.RawMessage(`"(no sample recorded)"`))
	}
	level := levelOf(prop)
	knownHits := 0
	for _, f := range findings {
		knownHits += f.hits
	}
	ev := map[string]interface{}{
		"property_id": prop,
		"tier":        tier,
		"seed":        int64(seed & 0x7fffffffffffffff),
		"level":       level,
		"coverage": map[string]interface{}{
			"evaluations":         evals,
			"distinct_nontrivial": len(sigs),
			"rule":                ruleOf(prop),
			"samples":             samples,
			"conclusive":          conclusive,
			"inconclusive":        inconclusive,
			"inconclusive_notes":  inconcMsgs,
			"worker_deaths":       crashes,
			"nontrivial_cases":    nontrivial,
			"observed":            obs,
			"parts":               partsSummary(parts),
			"known_findings_hits": knownHits,
			"verdict":             status,
		},
		"assumptions": assumptionsOf(prop),
		"wall_s":      time.Since(start).Seconds(),
		"violations":  unlisted,
	}
	_ = os.MkdirAll(filepath.Join(verifRoot, "evidence"), 0o755)
	eb, _ := json.MarshalIndent(ev, "", " ")
	_ = os.WriteFile(filepath.Join(verifRoot, "evidence", prop+".json"), eb, 0o644)

	fmt.Printf("%s %s seed=%d: %s — evaluations=%d conclusive=%d inconclusive=%d distinct_nontrivial=%d violations=%d known=%d wall=%.1fs\n",
		prop, tier, seed, status, evals, conclusive, inconclusive, len(sigs), unlisted, knownHits, time.Since(start).Seconds())
	if status == "inconclusive" {
		fmt.Printf("INCONCLUSIVE property=%s: too little was observed to decide (%v)\n", prop, inconcMsgs)
	}
	return exit
}

func partsSummary(parts []Part) []map[string]interface{} {
	var out []map[string]interface{}
	for _, p := range parts {
		out = append(out, map[string]interface{}{"part": p.Name, "cases": p.N, "race": p.Race, "gomaxprocs": p.Procs, "toolchain": p.Toolchain})
	}
	return out
}

func firstLines(s string, n int) string {
	lines := strings.Split(strings.TrimSpace(s), "\n")
	if len(lines) > n {
		lines = lines[:n]
	}
	return strings.Join(lines, " | ")
}

func oneLine(s string, n int) string {
	s = strings.ReplaceAll(s, "\n", " | ")
	if len(s) > n {
		s = s[:n] + "…"
	}
	return s
}

var crashHead = regexp.MustCompile(`(?m)^(panic: .*|fatal error: .*|runtime: .*|SIGSEGV.*|unexpected fault address.*)$`)

// classifyCrash decides whether a dead worker is a violation of prop.
// A library panic / fatal error is a violation of the properties whose
// statement says "no panic" (C02, C07, C15, C20, C19 transparently); for the
// other checks it is reported as inconclusive for that scenario (C02 owns it).
func classifyCrash(prop string, oc jobOutcome) (violation, bool) {
	m := crashHead.FindString(oc.stderr)
	if m == "" {
		return violation{}, false
	}
	if oc.timedOut {
		return violation{}, false
	}
	if strings.Contains(m, "HARNESS") {
		return violation{}, false
	}
	owns := map[string]bool{"C02": true, "C07": true, "C15": true, "C20": true, "C19": true, "C01": true, "C14": true, "C16": true}
	if !owns[prop] {
		return violation{}, false
	}
	libFrame := strings.Contains(oc.stderr, "github.com/vbauerster/mpb/v8")
	if !libFrame {
		return violation{}, false
	}
	if crashBlame(oc.stderr, m) == "harness" {
		// the goroutine that died was running harness code (innermost frame outside
		// runtime and standard library): not the library's panic, whatever called it
		return violation{}, false
	}
	key := "crash:" + normCrash(m, oc.stderr)
	rp, _ := json.Marshal(map[string]interface{}{"scenario": json.RawMessage(nonEmptyJSON(oc.crashSc)), "job": oc.job})
	w := oc.stderr
	if len(w) > 20000 {
		w = w[:20000]
	}
	return violation{Msg: "worker process died: " + m, Key: key, Replay: rp, Witness: w, Part: oc.job.Part, Idx: oc.crashIdx, Race: oc.job.Race, Procs: oc.job.Procs}, true
}

// crashBlame looks at the stack of the goroutine that died (the first one
// printed after the crash line) and says whose code was innermost, skipping
// runtime and standard-library frames: "library", "harness" or "" (cannot tell,
// e.g. "all goroutines are asleep").
func crashBlame(stderr, head string) string {
	i := strings.Index(stderr, head)
	if i < 0 {
		return ""
	}
	rest := stderr[i+len(head):]
	j := strings.Index(rest, "\ngoroutine ")
	if j < 0 {
		return ""
	}
	lines := strings.Split(rest[j+1:], "\n")
	for _, l := range lines[1:] {
		if l == "" {
			break // end of the first goroutine's stack
		}
		if strings.HasPrefix(l, "\t") || strings.HasPrefix(l, "created by") {
			continue
		}
		switch {
		case strings.HasPrefix(l, "main.") || strings.Contains(l, "verif/harness"):
			return "harness"
		case strings.Contains(l, "github.com/vbauerster/mpb/v8"):
			return "library"
		}
	}
	return ""
}

func nonEmptyJSON(b []byte) []byte {
	if len(bytes.TrimSpace(b)) == 0 {
		return []byte("null")
	}
	return b
}

var libFn = regexp.MustCompile(`github\.com/vbauerster/mpb/v8[^\s(]*\.[A-Za-z0-9_.()*]+`)

func normCrash(head, stderr string) string {
	fn := libFn.FindString(stderr)
	if i := strings.IndexByte(fn, '('); i > 0 && !strings.HasPrefix(fn[i:], "(*") {
		fn = fn[:i] // drop the argument list (pointer values differ from run to run)
	} else if j := strings.LastIndex(fn, "(0x"); j > 0 {
		fn = fn[:j]
	}
	h := head
	if len(h) > 80 {
		h = h[:80]
	}
	return h + "@" + fn
}

// ---------------------------------------------------------------- race reports

var raceSplit = regexp.MustCompile(`(?m)^={18}$`)

func raceViolations(prop string, oc jobOutcome) []violation {
	var out []violation
	if !strings.Contains(oc.stderr, "WARNING: DATA RACE") {
		return nil
	}
	blocks := raceSplit.Split(oc.stderr, -1)
	seen := map[string]bool{}
	for _, b := range blocks {
		if !strings.Contains(b, "WARNING: DATA RACE") {
			continue
		}
		if !strings.Contains(b, "github.com/vbauerster/mpb/v8") {
			// both sides in the harness: a harness bug, surfaced loudly
			out = append(out, violation{Msg: "HARNESS race (no library frame): " + firstLines(b, 12), Key: "harness-race", Witness: b, Part: oc.job.Part, Idx: oc.lastIdx, Race: true, Procs: oc.job.Procs})
			continue
		}
		key := "race:" + raceKey(b)
		if seen[key] {
			continue
		}
		seen[key] = true
		rp, _ := json.Marshal(map[string]interface{}{"job": oc.job})
		out = append(out, violation{Msg: "data race reported by the race detector: " + raceKey(b), Key: key, Replay: rp, Witness: b, Part: oc.job.Part, Idx: oc.lastIdx, Race: true, Procs: oc.job.Procs})
	}
	return out
}

var frameFn = regexp.MustCompile(`(?m)^  ([A-Za-z0-9_./*()\-]+)\(\)$`)

// raceKey: the first library function of each of the two access stacks, line
// numbers stripped.
func raceKey(block string) string {
	parts := regexp.MustCompile(`(?m)^(Previous |)(read|write|Read|Write|atomic).* by .*:$`).Split(block, -1)
	var fns []string
	for _, p := range parts[1:] {
		if len(fns) == 2 {
			break
		}
		fn := ""
		for _, m := range frameFn.FindAllStringSubmatch(p, -1) {
			if strings.Contains(m[1], "vbauerster/mpb") {
				fn = m[1]
				break
			}
		}
		if fn == "" {
			if m := frameFn.FindStringSubmatch(p); m != nil {
				fn = m[1]
			}
		}
		fns = append(fns, fn)
	}
	sort.Strings(fns)
	return strings.Join(fns, " <-> ")
}

// ---------------------------------------------------------------- replay

func runReplay(path string) int {
	b, err := os.ReadFile(path)
	if err != nil {
		fmt.Fprintln(os.Stderr, err)
		return 2
	}
	var rf struct {
		Property string `json:"property"`
		Tier     string `json:"tier"`
		Seed     uint64 `json:"seed"`
		Part     string `json:"part"`
		Index    int    `json:"index"`
		Race     bool   `json:"race"`
		Procs    int    `json:"procs"`
		Replay   struct {
			Scenario json.RawMessage `json:"scenario"`
			Case     json.RawMessage `json:"case"`
			Chain    json.RawMessage `json:"chain"`
			Job      *common.Job     `json:"job"`
		} `json:"replay"`
	}
	if err := json.Unmarshal(b, &rf); err != nil {
		fmt.Fprintln(os.Stderr, err)
		return 2
	}
	_ = os.MkdirAll(filepath.Join(verifRoot, ".work"), 0o755)
	workdir, err := os.MkdirTemp(filepath.Join(verifRoot, ".work"), "replay-")
	if err != nil {
		fmt.Fprintln(os.Stderr, err)
		return 2
	}
	defer os.RemoveAll(workdir)
	bld := &builder{dir: workdir, bins: map[string]string{}}
	bin, err := bld.get(rf.Race, "")
	if err != nil {
		fmt.Fprintln(os.Stderr, err)
		return 2
	}
	abs, _ := filepath.Abs(path)
	tries := 1
	if v := os.Getenv("VERIF_REPLAY_TRIES"); v != "" {
		if n, err := strconv.Atoi(v); err == nil {
			tries = n
		}
	} else if rf.Race {
		tries = 5
	} else if scheduleDetermined(rf.Property) {
		tries = 50
	}
	again := 0
	for i := 0; i < tries; i++ {
		job := common.Job{Prop: rf.Property, Tier: rf.Tier, Seed: rf.Seed, From: rf.Index, To: rf.Index + 1, Part: rf.Part, Race: rf.Race, Procs: rf.Procs, Replay: abs}
		if isNull(rf.Replay.Scenario) && isNull(rf.Replay.Case) && isNull(rf.Replay.Chain) && rf.Replay.Job != nil {
			// no self-contained case (race reports, crashes before the scenario was logged):
			// re-run the seeded index range of the original job
			job = *rf.Replay.Job
			job.Replay = ""
		}
		oc := runJob(bin, job, workdir, i+1, 5*time.Minute)
		hit := false
		for _, r := range oc.results {
			if r.Status == common.Violated || len(r.Extra) > 0 {
				hit = true
				if again == 0 {
					fmt.Printf("replay: violated again: %s\n", oneLine(r.Msg, 600))
					if os.Getenv("VERIF_REPLAY_WITNESS") != "" {
						fmt.Println(r.Witness)
					}
				}
			}
		}
		if oc.crashed {
			if _, ok := classifyCrash(rf.Property, oc); ok {
				hit = true
				if again == 0 {
					fmt.Printf("replay: worker died again: %s\n", firstLines(crashHead.FindString(oc.stderr), 1))
				}
			}
		}
		if rf.Race && len(raceViolations(rf.Property, oc)) > 0 {
			hit = true
		}
		if hit {
			again++
		}
	}
	fmt.Printf("replay of %s: violated in %d of %d run(s)\n", path, again, tries)
	if again > 0 {
		fmt.Printf("VIOLATION property=%s replay=%s\n", rf.Property, path)
		return 1
	}
	return 0
}

func isNull(r json.RawMessage) bool {
	t := strings.TrimSpace(string(r))
	return t == "" || t == "null"
}

func scheduleDetermined(prop string) bool {
	switch prop {
	case "C07", "C08", "C09", "C19", "C20":
		return false
	}
	return true
}
