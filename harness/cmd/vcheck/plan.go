package main

import "time"

// Part is one seeded list of cases of a check. Counts are fixed per tier
// (never a time budget); every case is derived from (VERIF_SEED, part, index).
type Part struct {
	Name      string
	N         int // number of cases (scenarios, or chunks for input families)
	Chunk     int // indices per worker child
	Race      bool
	Procs     []int // GOMAXPROCS values cycled over the jobs
	Toolchain string
	Timeout   time.Duration // driver watchdog per child (generous; firing = inconclusive)
}

func q(tier string, quick, thorough int) int {
	if tier == "thorough" {
		return thorough
	}
	return quick
}

func plan(prop, tier string) []Part {
	to := 10 * time.Minute
	switch prop {
	case "C08":
		return []Part{
			{Name: "lattice", N: q(tier, 16, 16), Chunk: 1, Timeout: to},
			{Name: "random", N: q(tier, 32, 3000), Chunk: 2, Timeout: to},
			{Name: "mono", N: q(tier, 32, 1600), Chunk: 2, Timeout: to},
		}
	case "C01":
		ps := []Part{
			{Name: "mixed", N: q(tier, 600, 12000), Chunk: 40, Procs: []int{2, 16, 4, 1}, Timeout: to},
			{Name: "nq", N: q(tier, 400, 8000), Chunk: 40, Procs: []int{2, 16, 4, 1}, Timeout: to},
			{Name: "big", N: q(tier, 16, 200), Chunk: 4, Procs: []int{4, 16}, Timeout: to},
			{Name: "err", N: q(tier, 200, 4000), Chunk: 40, Procs: []int{2, 16, 4, 1}, Timeout: to},
			{Name: "swap", N: q(tier, 200, 4000), Chunk: 40, Procs: []int{2, 16, 4, 1}, Timeout: to},
			{Name: "queue", N: q(tier, 200, 4000), Chunk: 40, Procs: []int{2, 16, 4, 1}, Timeout: to},
		}
		if tier == "thorough" {
			// scheduler diversity: the same families built with the other installed toolchain
			ps = append(ps, Part{Name: "mixed-go126", N: 6000, Chunk: 40, Procs: []int{2, 16, 4, 1}, Toolchain: "go1.26.8", Timeout: to},
				Part{Name: "nq-go126", N: 4000, Chunk: 40, Procs: []int{2, 16, 4, 1}, Toolchain: "go1.26.8", Timeout: to})
		}
		return ps
	case "C02":
		return []Part{
			{Name: "mixed", N: q(tier, 600, 12000), Chunk: 40, Procs: []int{2, 16, 4, 1}, Timeout: to},
			{Name: "nq", N: q(tier, 400, 8000), Chunk: 40, Procs: []int{2, 16, 4, 1}, Timeout: to},
			{Name: "err", N: q(tier, 200, 4000), Chunk: 40, Procs: []int{2, 16, 4, 1}, Timeout: to},
			{Name: "waiters", N: q(tier, 400, 8000), Chunk: 40, Procs: []int{16, 4, 8}, Timeout: to},
		}
	case "C03":
		return []Part{
			{Name: "mixed", N: q(tier, 800, 16000), Chunk: 40, Procs: []int{2, 16, 4, 1}, Timeout: to},
			{Name: "busy", N: q(tier, 300, 6000), Chunk: 30, Procs: []int{2, 16, 4, 1}, Timeout: to},
		}
	case "C13":
		return []Part{
			{Name: "mixed", N: q(tier, 800, 16000), Chunk: 40, Procs: []int{2, 16, 4, 1}, Timeout: to},
			{Name: "err", N: q(tier, 200, 4000), Chunk: 40, Procs: []int{2, 16, 4, 1}, Timeout: to},
			{Name: "lines", N: q(tier, 200, 4000), Chunk: 40, Procs: []int{2, 16, 4, 1}, Timeout: to},
		}
	case "C14":
		return []Part{
			{Name: "mixed", N: q(tier, 800, 16000), Chunk: 40, Procs: []int{2, 16, 4, 1}, Timeout: to},
			{Name: "err", N: q(tier, 200, 4000), Chunk: 40, Procs: []int{2, 16, 4, 1}, Timeout: to},
		}
	case "C16":
		return []Part{
			{Name: "mixed", N: q(tier, 800, 16000), Chunk: 40, Procs: []int{2, 16, 4, 1}, Timeout: to},
			{Name: "err", N: q(tier, 200, 4000), Chunk: 40, Procs: []int{2, 16, 4, 1}, Timeout: to},
			{Name: "queue", N: q(tier, 300, 6000), Chunk: 40, Procs: []int{2, 16, 4, 1}, Timeout: to},
		}
	case "C05":
		return []Part{
			{Name: "mixed", N: q(tier, 600, 12000), Chunk: 40, Procs: []int{2, 16, 4, 1}, Timeout: to},
			{Name: "nq", N: q(tier, 300, 6000), Chunk: 40, Procs: []int{2, 16, 4, 1}, Timeout: to},
			{Name: "err", N: q(tier, 200, 4000), Chunk: 40, Procs: []int{2, 16, 4, 1}, Timeout: to},
			{Name: "queue", N: q(tier, 120, 2400), Chunk: 10, Procs: []int{2, 16, 4, 1}, Timeout: to},
			{Name: "late", N: q(tier, 200, 4000), Chunk: 40, Procs: []int{2, 16, 4, 1}, Timeout: to},
		}
	case "C10":
		return []Part{
			{Name: "lin", N: q(tier, 600, 12000), Chunk: 50, Procs: []int{2, 16, 4, 1}, Timeout: to},
			{Name: "race", N: q(tier, 240, 6000), Chunk: 20, Race: true, Procs: []int{4, 16, 2}, Timeout: 20 * time.Minute},
			{Name: "race-nq", N: q(tier, 80, 2000), Chunk: 20, Race: true, Procs: []int{4, 16}, Timeout: 20 * time.Minute},
			{Name: "race-err", N: q(tier, 80, 2000), Chunk: 20, Race: true, Procs: []int{4, 16}, Timeout: 20 * time.Minute},
			{Name: "race-more", N: q(tier, 120, 3000), Chunk: 20, Race: true, Procs: []int{4, 16, 2}, Timeout: 20 * time.Minute},
			{Name: "race-go126", N: q(tier, 0, 4000), Chunk: 20, Race: true, Procs: []int{4, 16, 2}, Toolchain: "go1.26.8", Timeout: 20 * time.Minute},
		}
	case "C04":
		return []Part{
			{Name: "mem", N: q(tier, 500, 10000), Chunk: 40, Procs: []int{2, 16, 4, 1}, Timeout: to},
			{Name: "pty", N: q(tier, 300, 6000), Chunk: 30, Procs: []int{2, 16, 4}, Timeout: to},
			{Name: "none", N: q(tier, 60, 600), Chunk: 30, Procs: []int{4}, Timeout: to},
			{Name: "delay", N: q(tier, 100, 2000), Chunk: 25, Procs: []int{4, 2}, Timeout: to},
			{Name: "resize", N: q(tier, 150, 3000), Chunk: 30, Procs: []int{2, 16, 4}, Timeout: to},
		}
	case "C18":
		return []Part{
			{Name: "mem", N: q(tier, 600, 12000), Chunk: 40, Procs: []int{2, 16, 4, 1}, Timeout: to},
			{Name: "pty", N: q(tier, 300, 6000), Chunk: 30, Procs: []int{2, 16, 4}, Timeout: to},
			{Name: "late", N: q(tier, 300, 6000), Chunk: 30, Procs: []int{2, 16, 4}, Timeout: to},
		}
	case "C17":
		return []Part{
			{Name: "manual", N: q(tier, 400, 8000), Chunk: 40, Procs: []int{2, 16, 4, 1}, Timeout: to},
			{Name: "mixed", N: q(tier, 400, 8000), Chunk: 40, Procs: []int{2, 16, 4, 1}, Timeout: to},
		}
	case "C06":
		return []Part{
			{Name: "manual", N: q(tier, 300, 6000), Chunk: 30, Procs: []int{2, 16, 4}, Timeout: to},
			{Name: "auto", N: q(tier, 300, 6000), Chunk: 30, Procs: []int{2, 16, 4, 1}, Timeout: to},
			{Name: "pop", N: q(tier, 300, 6000), Chunk: 30, Procs: []int{2, 16, 4}, Timeout: to},
		}
	case "C12":
		return []Part{
			{Name: "mixed", N: q(tier, 600, 12000), Chunk: 40, Procs: []int{2, 16, 4, 1}, Timeout: to},
			{Name: "nq", N: q(tier, 200, 4000), Chunk: 40, Procs: []int{2, 16, 4, 1}, Timeout: to},
			{Name: "swap", N: q(tier, 200, 4000), Chunk: 40, Procs: []int{2, 16, 4, 1}, Timeout: to},
		}
	case "C11":
		return []Part{{Name: "mixed", N: q(tier, 1200, 24000), Chunk: 60, Procs: []int{2, 16, 4, 1}, Timeout: to}}
	case "C15":
		return []Part{
			{Name: "filler", N: q(tier, 500, 10000), Chunk: 40, Procs: []int{2, 16, 4, 1}, Timeout: to},
			{Name: "output", N: q(tier, 200, 4000), Chunk: 40, Procs: []int{2, 16, 4, 1}, Timeout: to},
			{Name: "pty", N: q(tier, 150, 3000), Chunk: 30, Procs: []int{2, 16, 4}, Timeout: to},
		}
	case "C19":
		return []Part{{Name: "script", N: q(tier, 12, 1500), Chunk: 1, Timeout: to}}
	case "C20":
		return []Part{
			{Name: "size", N: q(tier, 8, 1000), Chunk: 1, Timeout: to},
			{Name: "pct", N: q(tier, 5, 500), Chunk: 1, Timeout: to},
			{Name: "time", N: q(tier, 3, 300), Chunk: 1, Timeout: to},
			{Name: "ewma", N: q(tier, 4, 400), Chunk: 1, Timeout: to},
		}
	case "C09":
		ps := []Part{
			{Name: "exh3", N: 21, Chunk: 1, Timeout: to}, // one chunk per first letter of the 21-letter alphabet
			{Name: "random", N: q(tier, 16, 2000), Chunk: 1, Timeout: to},
		}
		if tier == "thorough" {
			ps = append(ps, Part{Name: "exh4", N: 21, Chunk: 1, Timeout: 30 * time.Minute})
		}
		return ps
	case "C07":
		return []Part{
			{Name: "grid", N: q(tier, 16, 800), Chunk: 1, Timeout: to},
			{Name: "fill", N: q(tier, 16, 2000), Chunk: 1, Timeout: to},
			{Name: "spin", N: q(tier, 4, 200), Chunk: 1, Timeout: to},
			{Name: "decor", N: q(tier, 8, 500), Chunk: 1, Timeout: to},
			{Name: "row", N: q(tier, 16, 2000), Chunk: 1, Timeout: to},
			{Name: "clip", N: q(tier, 8, 200), Chunk: 1, Timeout: to},
		}
	}
	return nil
}

func levelOf(prop string) string {
	switch prop {
	case "C14", "C15":
		return "fault_enumeration"
	}
	return "exploration"
}

func ruleOf(prop string) string {
	if r, ok := rules[prop]; ok {
		return r
	}
	return ""
}

func assumptionsOf(prop string) []string {
	base := []string{
		"verdict is 'held on the executions observed', not a proof; schedules are sampled, with hook-driven perturbation",
		"worker is rebuilt from /repo's working tree with -tags verif (hooks add events only)",
	}
	return append(base, assumptions[prop]...)
}

var rules = map[string]string{
	"C01": "cases = seeded scenarios (container config x bars x client programs x director; H(VERIF_SEED, property, part, index)) executed against the real library in worker children with hook-driven delays/triggers and GOMAXPROCS cycled over the part's list; parts mixed / nq (more bars than the heap manager's queue) / big (130-200 bars) / err (render faults). Decided per scenario by the stuck-state certificate, the spin rule and the bounded-progress rule. Non-trivial = at least two seeded delays were applied to library goroutines, or a detached push occurred, or the scenario has more bars than queue slots. distinct = distinct interleaving signatures (hash of the order of hm.req / flush.bar / bar.exit / add / serve.done / detached-push hook events) among the non-trivial scenarios",
	"C02": "cases = seeded scenarios (container config x bars x client programs x director; H(VERIF_SEED, property, part, index)) executed against the real library in worker children with hook-driven delays/triggers and GOMAXPROCS cycled over the part's list; call histories over the whole public surface with the done event (natural end, cancel, Shutdown) placed by step or hook trigger; parts mixed / nq / err / waiters. Decided by crash attribution of the worker child, the stuck-state certificate, well-formed results of Add/Write, and assertions on calls issued after Wait returned. Non-trivial = at least one client call's [invoke, return] interval contains the serve.done event, or the scenario issues the late-call battery after Wait. distinct = distinct interleaving signatures among the non-trivial scenarios",
	"C03": "cases = seeded scenarios (container config x bars x client programs x director; H(VERIF_SEED, property, part, index)) executed against the real library in worker children with hook-driven delays/triggers and GOMAXPROCS cycled over the part's list; auto-refresh / pty containers with last updates racing ticks and Wait, endings natural / cancel / Shutdown. The last frame is parsed and compared per bar with getters read after Wait and with the bar's spec; no output event may be stamped after Wait's return. Non-trivial = some bar has at most three terminal frames before the end (it became terminal within the last cycles) or the scenario ends by cancel/Shutdown. distinct = distinct interleaving signatures among the non-trivial scenarios",
	"C04": "cases = seeded scenarios (container config x bars x client programs x director; H(VERIF_SEED, property, part, index)) executed against the real library in worker children with hook-driven delays/triggers and GOMAXPROCS cycled over the part's list; parts mem (in-memory writer) / pty (real pseudo terminal, rows 1-24 x cols 20-200) / none (no refresh) / delay. Every frame is replayed through the terminal emulator and the tape invariant (persisted lines append-only ++ this frame's rows, nothing in scrollback, no autowrap, cursor position) is checked after each. Non-trivial = two consecutive frames differ in row count, or (pty) a frame reaches the usable terminal height; for part none: the container has at least one bar. distinct = distinct interleaving signatures among the non-trivial scenarios",
	"C05": "cases = seeded scenarios (container config x bars x client programs x director; H(VERIF_SEED, property, part, index)) executed against the real library in worker children with hook-driven delays/triggers and GOMAXPROCS cycled over the part's list; Add from several clients while rendering, completion, abort with/without drop, removal, pop, queue-after, n > q; parts mixed / nq / err / queue. Per frame: one row group per bar, no unknown id; per bar: contiguous interval of frames, prompt first appearance by hook timestamps, leaves only when terminal and of a leaving kind, render counter strictly newer; notifier list vs last frame. Non-trivial = the set of displayed bars changed in at least two frames (err part: more than one bar). distinct = distinct interleaving signatures among the non-trivial scenarios",
	"C06": "cases = seeded scenarios (container config x bars x client programs x director; H(VERIF_SEED, property, part, index)) executed against the real library in worker children with hook-driven delays/triggers and GOMAXPROCS cycled over the part's list; parts manual (change -> refresh -> read frame) / auto (concurrent changes) / pop. Every frame must be sorted under some assignment of applied-or-ambiguous priority values; successor rank; pop order by finishing cycle. Non-trivial = at least two frames were order-checked and the scenario has a priority update, a pop event or more than two bars. distinct = distinct interleaving signatures among the non-trivial scenarios",
	"C10": "part lin: cases = seeded scenarios (container config x bars x client programs x director; H(VERIF_SEED, property, part, index)) executed against the real library in worker children with hook-driven delays/triggers and GOMAXPROCS cycled over the part's list; 2-6 clients x 4-12 operations on 1-3 shared bars, recorded at the client boundary {client, op, args, invoke, result, return} with one logical clock, checked per bar by porcupine against the Appendix-B machine (non-deterministic after the terminal transition). Non-trivial = at least two operations of different clients on one bar overlap in time; distinct = distinct interleaving signatures. Parts race*: worker built with -race (hooks and logical clock off), scenario families of C01/C02/C13/C14/C15 plus a getter-hammering family; decided by the race detector's reports (counted from GORACE log files, deduplicated by library function pair); plus part race-more (queue-after hand-overs, pop mode with late successors, several goroutines parked in Progress.Wait, the terminal path on a pty); non-trivial = the scenario has a bar and either two client goroutines or at least six client calls running against the library's render and bar goroutines; distinct = distinct scenario seeds",
	"C11": "cases = seeded scenarios (container config x bars x client programs x director; H(VERIF_SEED, property, part, index)) executed against the real library in worker children with hook-driven delays/triggers and GOMAXPROCS cycled over the part's list; histories that cross the terminal transition and keep going (Abort at current = total, increments after Abort, cancel placed by trigger at bar.trigger / flush.bar / bar.exit, reads before/during/after the bar's shutdown). Per bar a flag monitor is fed by every client read, every marker row and the post-Wait getters. Non-trivial = for some bar a true flag was observed and the bar has more than two observations (the monitor saw it before and after the transition). distinct = distinct interleaving signatures among the non-trivial scenarios",
	"C12": "cases = seeded scenarios (container config x bars x client programs x director; H(VERIF_SEED, property, part, index)) executed against the real library in worker children with hook-driven delays/triggers and GOMAXPROCS cycled over the part's list; 2-12 bars with 0-3 synchronised + plain decorators per side in every mix, membership changes between frames, n > q. Field extents are recovered from the rows; the common width of each column must equal the maximum need over the bars shown in that frame. Non-trivial = at least four synchronised fields were checked over at least two frames. distinct = distinct interleaving signatures among the non-trivial scenarios",
	"C13": "cases = seeded scenarios (container config x bars x client programs x director; H(VERIF_SEED, property, part, index)) executed against the real library in worker children with hook-driven delays/triggers and GOMAXPROCS cycled over the part's list; 1-8 writer goroutines with unique payloads (buffers overwritten right after Write returns) interleaved with render cycles, completion and shutdown; parts mixed / err. Each accepted payload must occur exactly once, unmodified, above the rows of its frame, in an order consistent with the call intervals, by the last frame. Non-trivial = a Write overlapped a render cycle or the done event, or more than three texts were located. distinct = distinct interleaving signatures among the non-trivial scenarios",
	"C14": "fault sites = {cancel, Shutdown} placed by trigger at hook point x occurrence (add, bar.exit, bar.render.terminal, bar.trigger, dist.collected, early.refresh, flush.bar, flush.write, hm.push, hm.req, render.begin/requested/end; occurrences 1-4) and by step index of the client history; cases = seeded scenarios (container config x bars x client programs x director; H(VERIF_SEED, property, part, index)) executed against the real library in worker children with hook-driven delays/triggers and GOMAXPROCS cycled over the part's list. After Wait: IsRunning false, exactly one terminal flag, unfinished bars aborted, each listener notified exactly once, one notifier value with the right set, Bar.Wait returned with settled flags. Non-trivial = the cancellation actually landed at its site (trigger fired / step reached) before the natural end. distinct = distinct interleaving signatures among the non-trivial scenarios; sites hit are listed under observed as site:<action>@<point>#<occurrence>",
	"C15": "fault sites = k-th Fill of bar i, k-th extender call, k-th output Write, k-th terminal-size query (pty + dup2), error kinds custom / io.EOF / io.ErrUnexpectedEOF; cases = seeded scenarios (container config x bars x client programs x director; H(VERIF_SEED, property, part, index)) executed against the real library in worker children with hook-driven delays/triggers and GOMAXPROCS cycled over the part's list; other bars sit in width-sync columns the failing bar lacks, slow decorators. After the fault: Wait returns (certificate otherwise), error text exactly once in the debug output, no output write and no render cycle after the failing one, no bar running, notifier list. Non-trivial = a render cycle actually failed. distinct = distinct interleaving signatures among the non-trivial scenarios; sites hit are listed under observed as site:fault:<kind>#<k>",
	"C16": "cases = seeded scenarios (container config x bars x client programs x director; H(VERIF_SEED, property, part, index)) executed against the real library in worker children with hook-driven delays/triggers and GOMAXPROCS cycled over the part's list; normal, cancel and error endings, pop, queued bars, n > q, abandoned manual-refresh channel; parts mixed / err / queue; in addition every worker child runs its 40 containers back to back in one process and compares the goroutine count before the first with the count after the last (key goroutine-growth). After Wait returned and the notifier was read, goroutine dumps are polled until no library frame remains; a library goroutine parked unchanged across 5 polls while nothing else runs is a leak. Non-trivial = the drain check was reached (scenario finished). distinct = distinct interleaving signatures",
	"C17": "cases = seeded scenarios (container config x bars x client programs x director; H(VERIF_SEED, property, part, index)) executed against the real library in worker children with hook-driven delays/triggers and GOMAXPROCS cycled over the part's list; every order of {create predecessor, predecessor finishes, predecessor flushed, create successor(s), successor finishes}, 1-3 successors per predecessor, chains, pop mode; parts manual / mixed. Never shown together; a successor queued before the cycle of the predecessor's last frame appears in the very next frame at the predecessor's rank; a late successor appears in the first frame whose cycle began after its Add returned; Wait does not return before every bar is terminal. Non-trivial = a timely hand-over or a late successor was checked. distinct = distinct interleaving signatures among the non-trivial scenarios",
	"C18": "cases = seeded scenarios (container config x bars x client programs x director; H(VERIF_SEED, property, part, index)) executed against the real library in worker children with hook-driven delays/triggers and GOMAXPROCS cycled over the part's list; pop-mode programs with bars finishing in any order and in the same cycle, extender rows, text in between, no-pop bars, queue-after, small ptys; parts mem / pty. The emulator's persisted region must gain exactly the final rows of the bars pop mode retires, each once, unchanged, in frame order; popped bars are the topmost rows of the frame that retires them. Non-trivial = at least one popped bar was found in the persisted region. distinct = distinct interleaving signatures among the non-trivial scenarios",
	"C19": "cases = scripted under-layers: all 2^3 dynamic interface shapes of the wrapped value (Close, WriteTo/ReadFrom) x direction x moving-average decorator present or not (wrapped 0..3 deep) x total unknown / exact / exceeded / larger x container none / auto; scripts of 1..50 calls with 0-byte, short and full transfers, injected delays, an error (EOF, custom, short write) at a random position; non-trivial = at least one byte moved; distinct = distinct case tuples",
	"C20": "cases = (value, unit system, verb/flag/precision, route: formatter type directly or through Counters/Total/Current/InvertedCurrent/speed decorators) over the full lattice of unit boundaries +-2 and half-way points plus seeded random int64 values; (current,total) pairs incl. > 2^57 for the percentage; durations on the carry-boundary lattice and random below 60 h for the four time styles (exact through a normaliser, time-based with an interval expectation); (n,duration) sample sequences incl. n<=0 and zero durations fed directly and through a bar with wrappers 0..3 deep; freeze probes. Printed strings are parsed back and compared in 300-bit arithmetic. Non-trivial = every case with a non-degenerate value; distinct = distinct case tuples",
	"C09": "cases = sequential operation lists on one bar: ALL sequences of length 3 (thorough: also length 4) over a 20-letter alphabet (argument classes -1, 0, total-1, total, total+1, big) from initial totals {-5,0,1,10,2^62}, plus seeded random lists of up to 40 operations with int64 arguments (no overflowing sums) in non-refreshing, manual and auto containers; after every step Current/Completed/Aborted (manual: also the Statistics of a rendered frame) are compared with the reference machine; non-trivial = at least 2 steps compared; distinct = distinct (mode,total,ops)",
	"C07": "cases = seeded draws of (bar style components from {empty, ASCII, wide CJK, zero-width, multi-rune}, reverse, tip frames, tip-on-complete, refill, widths 0..300 with a full sweep 0..40, requested widths -1..400, int64 totals/currents), spinner styles, built-in decorators x WC{W,C} x wrappers, and whole rows through a manually refreshed container; a case is non-trivial when the allotted width is > 0; distinct = distinct case tuples",
	"C08": "cases = (total,current,refill,width,style) tuples: an exhaustive boundary lattice (int64 boundaries squared x widths) plus seeded random tuples plus sorted chains for monotonicity; a case is non-trivial when the inner width is > 0 and total > 0; distinct = distinct (total,current,refill,width,style) tuples",
}

var assumptions = map[string][]string{
	"C19": {"sample durations are checked as nesting of measured intervals (injected sleep <= sample <= duration measured around the proxy call), never against a deadline", "after the bar completed, later samples may legitimately be dropped (the bar's goroutine may already have exited); only transfers up to the completing one are required"},
	"C20": {"domain as stated in the property (0 <= current <= total, durations < 60 h)", "tolerance = half a unit of the last printed digit + 4e-16 relative (float64 arithmetic inside the formatter)", "time-based decorators are given a start in the past; expectation is the interval [D, D + measured call overhead]", "speeds >= 2^63 B/s and a zero time.Since cannot be produced from outside and are not claimed"},
	"C09": {"reference machine = DESIGN.md Appendix B, written from the documented rules", "checking stops at the first terminal transition (C11 takes over)", "overflowing sums are outside the documented rules and not generated"},
	"C07": {"widths by the harness' own table for the runes it generates", "non-termination is decided on CPU time (>1.5 s in one call) or heap growth (>768 MiB), never on wall time", "ANSI colouring is applied through the Meta wrappers (the documented mechanism); raw escape sequences inside decorator text are outside the claimed domain", "user-supplied fillers/decorators are not held to the bound"},
	"C08": {"cell classification relies on the harness' own width table for the runes it generates (ASCII=1, chosen CJK=2)", "expected fill computed with math/big, round-half-away-from-zero; +-1 cell allowed only where width*current exceeds 2^53 (float rounding) and +-(r-1) for r-column runes"},
}
