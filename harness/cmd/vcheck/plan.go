package main

import "time"

// Part is one seeded list of cases of a check. Counts are fixed per tier
// (never a time budget); every case is derived from (VERIF_SEED, part, index).
type Part struct {
	Name      string
	N         int // number of cases (scenarios, or chunks for input families)
	Chunk     int // indices per worker child
	Race      bool
	Procs     []int // GOMAXPROCS values cycled over the jobs
	Toolchain string
	Timeout   time.Duration // driver watchdog per child (generous; firing = inconclusive)
}

func q(tier string, quick, thorough int) int {
	if tier == "thorough" {
		return thorough
	}
	return quick
}

func plan(prop, tier string) []Part {
	to := 10 * time.Minute
	switch prop {
	case "C08":
		return []Part{
			{Name: "lattice", N: q(tier, 16, 16), Chunk: 1, Timeout: to},
			{Name: "random", N: q(tier, 32, 3000), Chunk: 2, Timeout: to},
			{Name: "mono", N: q(tier, 32, 1600), Chunk: 2, Timeout: to},
		}
	case "C01":
		ps := []Part{
			{Name: "mixed", N: q(tier, 600, 12000), Chunk: 40, Procs: []int{2, 16, 4, 1}, Timeout: to},
			{Name: "nq", N: q(tier, 400, 8000), Chunk: 40, Procs: []int{2, 16, 4, 1}, Timeout: to},
			{Name: "big", N: q(tier, 16, 200), Chunk: 4, Procs: []int{4, 16}, Timeout: to},
			{Name: "err", N: q(tier, 200, 4000), Chunk: 40, Procs: []int{2, 16, 4, 1}, Timeout: to},
		}
		if tier == "thorough" {
			// scheduler diversity: the same families built with the other installed toolchain
			ps = append(ps, Part{Name: "mixed-go126", N: 6000, Chunk: 40, Procs: []int{2, 16, 4, 1}, Toolchain: "go1.26.8", Timeout: to},
				Part{Name: "nq-go126", N: 4000, Chunk: 40, Procs: []int{2, 16, 4, 1}, Toolchain: "go1.26.8", Timeout: to})
		}
		return ps
	case "C02":
		return []Part{
			{Name: "mixed", N: q(tier, 600, 12000), Chunk: 40, Procs: []int{2, 16, 4, 1}, Timeout: to},
			{Name: "nq", N: q(tier, 400, 8000), Chunk: 40, Procs: []int{2, 16, 4, 1}, Timeout: to},
			{Name: "err", N: q(tier, 200, 4000), Chunk: 40, Procs: []int{2, 16, 4, 1}, Timeout: to},
			{Name: "waiters", N: q(tier, 400, 8000), Chunk: 40, Procs: []int{16, 4, 8}, Timeout: to},
		}
	case "C03":
		return []Part{{Name: "mixed", N: q(tier, 800, 16000), Chunk: 40, Procs: []int{2, 16, 4, 1}, Timeout: to}}
	case "C13":
		return []Part{
			{Name: "mixed", N: q(tier, 800, 16000), Chunk: 40, Procs: []int{2, 16, 4, 1}, Timeout: to},
			{Name: "err", N: q(tier, 200, 4000), Chunk: 40, Procs: []int{2, 16, 4, 1}, Timeout: to},
		}
	case "C14":
		return []Part{
			{Name: "mixed", N: q(tier, 800, 16000), Chunk: 40, Procs: []int{2, 16, 4, 1}, Timeout: to},
			{Name: "err", N: q(tier, 200, 4000), Chunk: 40, Procs: []int{2, 16, 4, 1}, Timeout: to},
		}
	case "C16":
		return []Part{
			{Name: "mixed", N: q(tier, 800, 16000), Chunk: 40, Procs: []int{2, 16, 4, 1}, Timeout: to},
			{Name: "err", N: q(tier, 200, 4000), Chunk: 40, Procs: []int{2, 16, 4, 1}, Timeout: to},
			{Name: "queue", N: q(tier, 300, 6000), Chunk: 40, Procs: []int{2, 16, 4, 1}, Timeout: to},
		}
	case "C05":
		return []Part{
			{Name: "mixed", N: q(tier, 600, 12000), Chunk: 40, Procs: []int{2, 16, 4, 1}, Timeout: to},
			{Name: "nq", N: q(tier, 300, 6000), Chunk: 40, Procs: []int{2, 16, 4, 1}, Timeout: to},
			{Name: "err", N: q(tier, 200, 4000), Chunk: 40, Procs: []int{2, 16, 4, 1}, Timeout: to},
			{Name: "queue", N: q(tier, 120, 2400), Chunk: 10, Procs: []int{2, 16, 4, 1}, Timeout: to},
		}
	case "C10":
		return []Part{
			{Name: "lin", N: q(tier, 600, 12000), Chunk: 50, Procs: []int{2, 16, 4, 1}, Timeout: to},
			{Name: "race", N: q(tier, 240, 6000), Chunk: 20, Race: true, Procs: []int{4, 16, 2}, Timeout: 20 * time.Minute},
			{Name: "race-nq", N: q(tier, 80, 2000), Chunk: 20, Race: true, Procs: []int{4, 16}, Timeout: 20 * time.Minute},
			{Name: "race-err", N: q(tier, 80, 2000), Chunk: 20, Race: true, Procs: []int{4, 16}, Timeout: 20 * time.Minute},
			{Name: "race-go126", N: q(tier, 0, 4000), Chunk: 20, Race: true, Procs: []int{4, 16, 2}, Toolchain: "go1.26.8", Timeout: 20 * time.Minute},
		}
	case "C04":
		return []Part{
			{Name: "mem", N: q(tier, 500, 10000), Chunk: 40, Procs: []int{2, 16, 4, 1}, Timeout: to},
			{Name: "pty", N: q(tier, 300, 6000), Chunk: 30, Procs: []int{2, 16, 4}, Timeout: to},
			{Name: "none", N: q(tier, 60, 600), Chunk: 30, Procs: []int{4}, Timeout: to},
			{Name: "delay", N: q(tier, 100, 2000), Chunk: 25, Procs: []int{4, 2}, Timeout: to},
		}
	case "C18":
		return []Part{
			{Name: "mem", N: q(tier, 600, 12000), Chunk: 40, Procs: []int{2, 16, 4, 1}, Timeout: to},
			{Name: "pty", N: q(tier, 300, 6000), Chunk: 30, Procs: []int{2, 16, 4}, Timeout: to},
		}
	case "C17":
		return []Part{
			{Name: "manual", N: q(tier, 400, 8000), Chunk: 40, Procs: []int{2, 16, 4, 1}, Timeout: to},
			{Name: "mixed", N: q(tier, 400, 8000), Chunk: 40, Procs: []int{2, 16, 4, 1}, Timeout: to},
		}
	case "C06":
		return []Part{
			{Name: "manual", N: q(tier, 300, 6000), Chunk: 30, Procs: []int{2, 16, 4}, Timeout: to},
			{Name: "auto", N: q(tier, 300, 6000), Chunk: 30, Procs: []int{2, 16, 4, 1}, Timeout: to},
			{Name: "pop", N: q(tier, 300, 6000), Chunk: 30, Procs: []int{2, 16, 4}, Timeout: to},
		}
	case "C12":
		return []Part{
			{Name: "mixed", N: q(tier, 600, 12000), Chunk: 40, Procs: []int{2, 16, 4, 1}, Timeout: to},
			{Name: "nq", N: q(tier, 200, 4000), Chunk: 40, Procs: []int{2, 16, 4, 1}, Timeout: to},
		}
	case "C11":
		return []Part{{Name: "mixed", N: q(tier, 1200, 24000), Chunk: 60, Procs: []int{2, 16, 4, 1}, Timeout: to}}
	case "C15":
		return []Part{
			{Name: "filler", N: q(tier, 500, 10000), Chunk: 40, Procs: []int{2, 16, 4, 1}, Timeout: to},
			{Name: "output", N: q(tier, 200, 4000), Chunk: 40, Procs: []int{2, 16, 4, 1}, Timeout: to},
			{Name: "pty", N: q(tier, 150, 3000), Chunk: 30, Procs: []int{2, 16, 4}, Timeout: to},
		}
	case "C19":
		return []Part{{Name: "script", N: q(tier, 12, 1500), Chunk: 1, Timeout: to}}
	case "C20":
		return []Part{
			{Name: "size", N: q(tier, 8, 1000), Chunk: 1, Timeout: to},
			{Name: "pct", N: q(tier, 5, 500), Chunk: 1, Timeout: to},
			{Name: "time", N: q(tier, 3, 300), Chunk: 1, Timeout: to},
			{Name: "ewma", N: q(tier, 4, 400), Chunk: 1, Timeout: to},
		}
	case "C09":
		ps := []Part{
			{Name: "exh3", N: 21, Chunk: 1, Timeout: to}, // one chunk per first letter of the 21-letter alphabet
			{Name: "random", N: q(tier, 16, 2000), Chunk: 1, Timeout: to},
		}
		if tier == "thorough" {
			ps = append(ps, Part{Name: "exh4", N: 21, Chunk: 1, Timeout: 30 * time.Minute})
		}
		return ps
	case "C07":
		return []Part{
			{Name: "grid", N: q(tier, 16, 800), Chunk: 1, Timeout: to},
			{Name: "fill", N: q(tier, 16, 2000), Chunk: 1, Timeout: to},
			{Name: "spin", N: q(tier, 4, 200), Chunk: 1, Timeout: to},
			{Name: "decor", N: q(tier, 8, 500), Chunk: 1, Timeout: to},
			{Name: "row", N: q(tier, 16, 2000), Chunk: 1, Timeout: to},
			{Name: "clip", N: q(tier, 8, 200), Chunk: 1, Timeout: to},
		}
	}
	return nil
}

func levelOf(prop string) string {
	switch prop {
	case "C14", "C15":
		return "fault_enumeration"
	}
	return "exploration"
}

func ruleOf(prop string) string {
	if r, ok := rules[prop]; ok {
		return r
	}
	return ""
}

func assumptionsOf(prop string) []string {
	base := []string{
		"verdict is 'held on the executions observed', not a proof; schedules are sampled, with hook-driven perturbation",
		"worker is rebuilt from /repo's working tree with -tags verif (hooks add events only)",
	}
	return append(base, assumptions[prop]...)
}

var rules = map[string]string{
	"C19": "cases = scripted under-layers: all 2^3 dynamic interface shapes of the wrapped value (Close, WriteTo/ReadFrom) x direction x moving-average decorator present or not (wrapped 0..3 deep) x total unknown / exact / exceeded / larger x container none / auto; scripts of 1..50 calls with 0-byte, short and full transfers, injected delays, an error (EOF, custom, short write) at a random position; non-trivial = at least one byte moved; distinct = distinct case tuples",
	"C20": "cases = (value, unit system, verb/flag/precision, route: formatter type directly or through Counters/Total/Current/InvertedCurrent/speed decorators) over the full lattice of unit boundaries +-2 and half-way points plus seeded random int64 values; (current,total) pairs incl. > 2^57 for the percentage; durations on the carry-boundary lattice and random below 60 h for the four time styles (exact through a normaliser, time-based with an interval expectation); (n,duration) sample sequences incl. n<=0 and zero durations fed directly and through a bar with wrappers 0..3 deep; freeze probes. Printed strings are parsed back and compared in 300-bit arithmetic. Non-trivial = every case with a non-degenerate value; distinct = distinct case tuples",
	"C09": "cases = sequential operation lists on one bar: ALL sequences of length 3 (thorough: also length 4) over a 20-letter alphabet (argument classes -1, 0, total-1, total, total+1, big) from initial totals {-5,0,1,10,2^62}, plus seeded random lists of up to 40 operations with int64 arguments (no overflowing sums) in non-refreshing, manual and auto containers; after every step Current/Completed/Aborted (manual: also the Statistics of a rendered frame) are compared with the reference machine; non-trivial = at least 2 steps compared; distinct = distinct (mode,total,ops)",
	"C07": "cases = seeded draws of (bar style components from {empty, ASCII, wide CJK, zero-width, multi-rune}, reverse, tip frames, tip-on-complete, refill, widths 0..300 with a full sweep 0..40, requested widths -1..400, int64 totals/currents), spinner styles, built-in decorators x WC{W,C} x wrappers, and whole rows through a manually refreshed container; a case is non-trivial when the allotted width is > 0; distinct = distinct case tuples",
	"C08": "cases = (total,current,refill,width,style) tuples: an exhaustive boundary lattice (int64 boundaries squared x widths) plus seeded random tuples plus sorted chains for monotonicity; a case is non-trivial when the inner width is > 0 and total > 0; distinct = distinct (total,current,refill,width,style) tuples",
}

var assumptions = map[string][]string{
	"C19": {"sample durations are checked as nesting of measured intervals (injected sleep <= sample <= duration measured around the proxy call), never against a deadline", "after the bar completed, later samples may legitimately be dropped (the bar's goroutine may already have exited); only transfers up to the completing one are required"},
	"C20": {"domain as stated in the property (0 <= current <= total, durations < 60 h)", "tolerance = half a unit of the last printed digit + 4e-16 relative (float64 arithmetic inside the formatter)", "time-based decorators are given a start in the past; expectation is the interval [D, D + measured call overhead]", "speeds >= 2^63 B/s and a zero time.Since cannot be produced from outside and are not claimed"},
	"C09": {"reference machine = DESIGN.md Appendix B, written from the documented rules", "checking stops at the first terminal transition (C11 takes over)", "overflowing sums are outside the documented rules and not generated"},
	"C07": {"widths by the harness' own table for the runes it generates", "non-termination is decided on CPU time (>1.5 s in one call) or heap growth (>768 MiB), never on wall time", "ANSI colouring is applied through the Meta wrappers (the documented mechanism); raw escape sequences inside decorator text are outside the claimed domain", "user-supplied fillers/decorators are not held to the bound"},
	"C08": {"cell classification relies on the harness' own width table for the runes it generates (ASCII=1, chosen CJK=2)", "expected fill computed with math/big, round-half-away-from-zero; +-1 cell allowed only where width*current exceeds 2^53 (float rounding) and +-(r-1) for r-column runes"},
}
