package main

import "time"

// Part is one seeded list of cases of a check. Counts are fixed per tier
// (never a time budget); every case is derived from (VERIF_SEED, part, index).
type Part struct {
	Name      string
	N         int // number of cases (scenarios, or chunks for input families)
	Chunk     int // indices per worker child
	Race      bool
	Procs     []int // GOMAXPROCS values cycled over the jobs
	Toolchain string
	Timeout   time.Duration // driver watchdog per child (generous; firing = inconclusive)
}

func q(tier string, quick, thorough int) int {
	if tier == "thorough" {
		return thorough
	}
	return quick
}

func plan(prop, tier string) []Part {
	to := 10 * time.Minute
	switch prop {
	case "C08":
		return []Part{
			{Name: "lattice", N: q(tier, 16, 16), Chunk: 1, Timeout: to},
			{Name: "random", N: q(tier, 32, 640), Chunk: 2, Timeout: to},
			{Name: "mono", N: q(tier, 32, 320), Chunk: 2, Timeout: to},
		}
	}
	return nil
}

func levelOf(prop string) string {
	switch prop {
	case "C14", "C15":
		return "fault_enumeration"
	}
	return "exploration"
}

func ruleOf(prop string) string {
	if r, ok := rules[prop]; ok {
		return r
	}
	return ""
}

func assumptionsOf(prop string) []string {
	base := []string{
		"verdict is 'held on the executions observed', not a proof; schedules are sampled, with hook-driven perturbation",
		"worker is rebuilt from /repo's working tree with -tags verif (hooks add events only)",
	}
	return append(base, assumptions[prop]...)
}

var rules = map[string]string{
	"C08": "cases = (total,current,refill,width,style) tuples: an exhaustive boundary lattice (int64 boundaries squared x widths) plus seeded random tuples plus sorted chains for monotonicity; a case is non-trivial when the inner width is > 0 and total > 0; distinct = distinct (total,current,refill,width,style) tuples",
}

var assumptions = map[string][]string{
	"C08": {"cell classification relies on the harness' own width table for the runes it generates (ASCII=1, chosen CJK=2)", "expected fill computed with math/big, round-half-away-from-zero; +-1 cell allowed only where width*current exceeds 2^53 (float rounding) and +-(r-1) for r-column runes"},
}
