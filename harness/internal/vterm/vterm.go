// Package vterm is a small terminal emulator for exactly the controls the
// library under test can emit: printable runes (with display widths from the
// harness' own table), LF (with ONLCR, i.e. CR+LF; scrolling at the bottom row
// pushes the top row into the scrollback), CR, CUU (ESC[nA, clamped at the top
// row), ED (ESC[J / ESC[0J, erase from the cursor to the end of the screen),
// SGR (ESC[...m, ignored) and deferred autowrap at the right margin, as in
// ECMA-48 / xterm. Anything else is recorded in Unknown.
package vterm

import (
	"fmt"
	"strings"
	"unicode/utf8"
)

type cell struct {
	s string // "" = blank; for the right half of a wide rune: "\x00"
}

type Term struct {
	Rows, Cols int
	scr        [][]cell
	r, c       int
	pending    bool // deferred wrap
	sb         []string
	Wraps      int      // number of autowrap events
	Scrolled   int      // number of lines pushed into the scrollback
	Unknown    []string // unrecognised control sequences / bytes
	carry      []byte   // incomplete sequence carried between Write calls
	Width      func(r rune) int
}

func New(rows, cols int) *Term {
	t := &Term{Rows: rows, Cols: cols, Width: RuneWidth}
	t.scr = make([][]cell, rows)
	for i := range t.scr {
		t.scr[i] = make([]cell, cols)
	}
	return t
}

// RuneWidth is the harness' width table. The generators only use runes for
// which it is unambiguous.
func RuneWidth(r rune) int {
	switch {
	case r == 0:
		return 0
	case r < 0x20 || r == 0x7f:
		return 0
	case r < 0x300:
		return 1
	case r >= 0x300 && r <= 0x36f: // combining diacritical marks
		return 0
	case r == 0x200b || r == 0x200d || r == 0xfeff: // zero width space / joiner / BOM
		return 0
	case r >= 0x1100 && r <= 0x115f:
		return 2
	case r >= 0x2e80 && r <= 0xa4cf && r != 0x303f:
		return 2
	case r >= 0xac00 && r <= 0xd7a3:
		return 2
	case r >= 0xf900 && r <= 0xfaff:
		return 2
	case r >= 0xfe30 && r <= 0xfe6f:
		return 2
	case r >= 0xff00 && r <= 0xff60:
		return 2
	case r >= 0xffe0 && r <= 0xffe6:
		return 2
	case r >= 0x1f300 && r <= 0x1f64f:
		return 2
	case r >= 0x20000 && r <= 0x3fffd:
		return 2
	}
	return 1
}

// StringWidth by the harness' table, skipping SGR sequences.
func StringWidth(s string) int {
	w := 0
	for i := 0; i < len(s); {
		if s[i] == 0x1b && i+1 < len(s) && s[i+1] == '[' {
			j := i + 2
			for j < len(s) && (s[j] < 0x40 || s[j] > 0x7e) {
				j++
			}
			if j < len(s) {
				j++
			}
			i = j
			continue
		}
		r, n := utf8.DecodeRuneInString(s[i:])
		w += RuneWidth(r)
		i += n
	}
	return w
}

func (t *Term) lineString(row []cell) string {
	var sb strings.Builder
	for _, c := range row {
		switch c.s {
		case "":
			sb.WriteByte(' ')
		case "\x00":
		default:
			sb.WriteString(c.s)
		}
	}
	return strings.TrimRight(sb.String(), " ")
}

func (t *Term) Screen() []string {
	out := make([]string, t.Rows)
	for i, row := range t.scr {
		out[i] = t.lineString(row)
	}
	return out
}

func (t *Term) Scrollback() []string { return t.sb }

func (t *Term) Cursor() (int, int) { return t.r, t.c }

// Tape is everything a user sees when scrolling back: the scrollback followed
// by the screen rows above the cursor row.
func (t *Term) Tape() []string {
	out := append([]string(nil), t.sb...)
	for i := 0; i < t.r && i < t.Rows; i++ {
		out = append(out, t.lineString(t.scr[i]))
	}
	return out
}

// BelowBlank reports whether the cursor row and everything below it is blank.
func (t *Term) BelowBlank() bool {
	for i := t.r; i < t.Rows; i++ {
		if t.lineString(t.scr[i]) != "" {
			return false
		}
	}
	return true
}

func (t *Term) scroll() {
	t.sb = append(t.sb, t.lineString(t.scr[0]))
	t.Scrolled++
	first := t.scr[0]
	copy(t.scr, t.scr[1:])
	for i := range first {
		first[i] = cell{}
	}
	t.scr[t.Rows-1] = first
}

func (t *Term) lf() {
	t.pending = false
	if t.r == t.Rows-1 {
		t.scroll()
	} else {
		t.r++
	}
}

func (t *Term) put(s string, w int) {
	if w == 0 {
		// combining / zero width: attach to the previous cell if any
		cc := t.c - 1
		if t.pending {
			cc = t.Cols - 1
		}
		for cc >= 0 && t.scr[t.r][cc].s == "\x00" {
			cc--
		}
		if cc >= 0 && t.scr[t.r][cc].s != "" {
			t.scr[t.r][cc].s += s
		}
		return
	}
	if t.pending || t.c+w > t.Cols {
		if t.Cols < w {
			return // cannot be displayed at all
		}
		// autowrap
		t.Wraps++
		t.pending = false
		t.c = 0
		if t.r == t.Rows-1 {
			t.scroll()
		} else {
			t.r++
		}
	}
	t.scr[t.r][t.c] = cell{s}
	for k := 1; k < w; k++ {
		t.scr[t.r][t.c+k] = cell{"\x00"}
	}
	if t.c+w >= t.Cols {
		t.c = t.Cols - 1
		t.pending = true
	} else {
		t.c += w
	}
}

func (t *Term) eraseBelow() {
	for j := t.c; j < t.Cols; j++ {
		t.scr[t.r][j] = cell{}
	}
	for i := t.r + 1; i < t.Rows; i++ {
		for j := range t.scr[i] {
			t.scr[i][j] = cell{}
		}
	}
}

// Write interprets p. Incomplete escape sequences or runes at the end of p
// are carried over to the next call.
func (t *Term) Write(p []byte) (int, error) {
	n := len(p)
	if len(t.carry) > 0 {
		p = append(append([]byte(nil), t.carry...), p...)
		t.carry = nil
	}
	for i := 0; i < len(p); {
		b := p[i]
		switch {
		case b == '\n':
			t.c = 0 // ONLCR
			t.lf()
			i++
		case b == '\r':
			t.c = 0
			t.pending = false
			i++
		case b == 0x1b:
			if i+1 >= len(p) {
				t.carry = append(t.carry, p[i:]...)
				return n, nil
			}
			if p[i+1] != '[' {
				t.Unknown = append(t.Unknown, fmt.Sprintf("ESC %q", p[i+1]))
				i += 2
				continue
			}
			j := i + 2
			for j < len(p) && (p[j] < 0x40 || p[j] > 0x7e) {
				j++
			}
			if j >= len(p) {
				t.carry = append(t.carry, p[i:]...)
				return n, nil
			}
			params := string(p[i+2 : j])
			final := p[j]
			switch final {
			case 'A', 'F': // CUU; CPL = CUU + carriage return
				k := 1
				if params != "" {
					k = 0
					ok := true
					for _, ch := range params {
						if ch < '0' || ch > '9' {
							ok = false
							break
						}
						k = k*10 + int(ch-'0')
						if k > 1<<20 {
							k = 1 << 20
						}
					}
					if !ok {
						t.Unknown = append(t.Unknown, "CSI "+params+"A")
						k = 0
					} else if k == 0 {
						k = 1 // CUU 0 is CUU 1
					}
				}
				t.pending = false
				t.r -= k
				if t.r < 0 {
					t.r = 0
				}
				if final == 'F' {
					t.c = 0
				}
			case 'K': // EL
				from, to := t.c, t.Cols
				switch params {
				case "", "0":
				case "1":
					from, to = 0, t.c+1
				case "2":
					from = 0
				default:
					t.Unknown = append(t.Unknown, "CSI "+params+"K")
					from = to
				}
				for j := from; j < to && j < t.Cols; j++ {
					t.scr[t.r][j] = cell{}
				}
			case 'J':
				if params == "" || params == "0" {
					t.eraseBelow()
				} else {
					t.Unknown = append(t.Unknown, "CSI "+params+"J")
				}
			case 'm':
				// SGR: no effect on geometry
			default:
				t.Unknown = append(t.Unknown, "CSI "+params+string(final))
			}
			i = j + 1
		case b < 0x20 || b == 0x7f:
			t.Unknown = append(t.Unknown, fmt.Sprintf("ctl %#x", b))
			i++
		default:
			if !utf8.FullRune(p[i:]) && len(p)-i < utf8.UTFMax {
				t.carry = append(t.carry, p[i:]...)
				return n, nil
			}
			r, sz := utf8.DecodeRune(p[i:])
			if r == utf8.RuneError && sz == 1 {
				t.Unknown = append(t.Unknown, fmt.Sprintf("bad utf8 %#x", b))
				t.put("�", 1)
				i++
				continue
			}
			t.put(string(p[i:i+sz]), t.Width(r))
			i += sz
		}
	}
	return n, nil
}

// ---------------------------------------------------------------- golden vectors

type vec struct {
	name       string
	rows, cols int
	in         string
	screen     []string
	sb         []string
	r, c       int
	wraps      int
}

// Hand-derived from ECMA-48 / xterm behaviour for LF, CR, CUU, ED, autowrap.
var vectors = []vec{
	{"plain lines", 4, 10, "ab\ncd\n", []string{"ab", "cd", "", ""}, nil, 2, 0, 0},
	{"scroll at bottom", 3, 10, "1\n2\n3\n", []string{"2", "3", ""}, []string{"1"}, 2, 0, 0},
	{"scroll twice", 2, 10, "1\n2\n3\n", []string{"3", ""}, []string{"1", "2"}, 1, 0, 0},
	{"cuu and erase", 4, 10, "aa\nbb\n\x1b[2A\x1b[Jcc\n", []string{"cc", "", "", ""}, nil, 1, 0, 0},
	{"cuu clamps at top", 3, 10, "a\n\x1b[5Ab", []string{"b", "", ""}, nil, 0, 1, 0},
	{"cuu one keeps row above", 4, 10, "aa\nbb\n\x1b[1A\x1b[Jcc\n", []string{"aa", "cc", "", ""}, nil, 2, 0, 0},
	{"erase from mid line", 2, 10, "abcdef\r\x1b[3A", []string{"abcdef", ""}, nil, 0, 0, 0},
	{"ED erases to end of line and below", 3, 10, "abc\ndef\n\x1b[2A\x1b[J", []string{"", "", ""}, nil, 0, 0, 0},
	{"deferred wrap: exactly cols chars do not wrap", 3, 4, "abcd", []string{"abcd", "", ""}, nil, 0, 3, 0},
	{"deferred wrap then LF: one line only", 3, 4, "abcd\nx", []string{"abcd", "x", ""}, nil, 1, 1, 0},
	{"autowrap", 3, 4, "abcde", []string{"abcd", "e", ""}, nil, 1, 1, 1},
	{"autowrap scrolls at bottom", 2, 4, "1\nabcde", []string{"abcd", "e"}, []string{"1"}, 1, 1, 1},
	{"wide rune", 2, 6, "a世b", []string{"a世b", ""}, nil, 0, 4, 0},
	{"wide rune wraps when one column left", 2, 4, "abc世", []string{"abc", "世"}, nil, 1, 2, 1},
	{"sgr ignored", 2, 10, "\x1b[31mab\x1b[0m", []string{"\x00", ""}, nil, 0, 2, 0},
	{"full height frame plus newline scrolls", 3, 10, "r1\nr2\nr3\n", []string{"r2", "r3", ""}, []string{"r1"}, 2, 0, 0},
	{"redraw in place", 5, 10, "x1\ny1\n\x1b[2A\x1b[Jx2\ny2\n", []string{"x2", "y2", "", "", ""}, nil, 2, 0, 0},
	{"cuu after scroll cannot reach scrolled line", 3, 10, "a\nb\nc\n\x1b[3A\x1b[JA\nB\nC\n", []string{"B", "C", ""}, []string{"a", "A"}, 2, 0, 0},
	{"combining mark has no width", 2, 6, "éx", []string{"éx", ""}, nil, 0, 2, 0},
}

// SelfTest replays the golden vectors.
func SelfTest() error {
	for _, v := range vectors {
		t := New(v.rows, v.cols)
		// feed in two pieces to exercise the carry-over
		half := len(v.in) / 2
		t.Write([]byte(v.in[:half]))
		t.Write([]byte(v.in[half:]))
		scr := t.Screen()
		for i := range scr {
			want := v.screen[i]
			if want == "\x00" { // marker: compare without SGR
				want = "ab"
			}
			if scr[i] != want {
				return fmt.Errorf("vector %q: screen row %d = %q, want %q (screen %q)", v.name, i, scr[i], want, scr)
			}
		}
		if len(t.sb) != len(v.sb) {
			return fmt.Errorf("vector %q: scrollback %q, want %q", v.name, t.sb, v.sb)
		}
		for i := range v.sb {
			if t.sb[i] != v.sb[i] {
				return fmt.Errorf("vector %q: scrollback %q, want %q", v.name, t.sb, v.sb)
			}
		}
		if t.r != v.r || t.c != v.c {
			return fmt.Errorf("vector %q: cursor (%d,%d), want (%d,%d)", v.name, t.r, t.c, v.r, v.c)
		}
		if t.Wraps != v.wraps {
			return fmt.Errorf("vector %q: wraps %d, want %d", v.name, t.Wraps, v.wraps)
		}
		if len(t.Unknown) != 0 {
			return fmt.Errorf("vector %q: unknown %v", v.name, t.Unknown)
		}
	}
	return nil
}
