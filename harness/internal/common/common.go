// Package common holds what the driver (vcheck) and the worker (vworker)
// share: the seeded PRNG, the record formats of the worker log, and the
// evidence/verdict types. It does not import the library under test.
package common

import (
	"encoding/json"
	"hash/fnv"
	"math"
)

// ---------------------------------------------------------------- PRNG

// Rng is splitmix64: tiny, seedable, good enough for workload generation.
type Rng struct{ s uint64 }

func NewRng(seed uint64) *Rng { return &Rng{s: seed} }

func (r *Rng) U64() uint64 {
	r.s += 0x9e3779b97f4a7c15
	z := r.s
	z = (z ^ (z >> 30)) * 0xbf58476d1ce4e5b9
	z = (z ^ (z >> 27)) * 0x94d049bb133111eb
	return z ^ (z >> 31)
}

// Intn returns a value in [0,n). n<=0 gives 0.
func (r *Rng) Intn(n int) int {
	if n <= 0 {
		return 0
	}
	return int(r.U64() % uint64(n))
}

// Range returns a value in [lo,hi].
func (r *Rng) Range(lo, hi int) int {
	if hi <= lo {
		return lo
	}
	return lo + r.Intn(hi-lo+1)
}

func (r *Rng) Bool() bool { return r.U64()&1 == 1 }

// Chance is true with probability num/den.
func (r *Rng) Chance(num, den int) bool { return r.Intn(den) < num }

func (r *Rng) I64() int64 { return int64(r.U64()) }

// I64n returns a value in [0,n).
func (r *Rng) I64n(n int64) int64 {
	if n <= 0 {
		return 0
	}
	return int64(r.U64() % uint64(n))
}

func (r *Rng) Float() float64 { return float64(r.U64()>>11) / float64(1<<53) }

// Pick returns one of the ints.
func (r *Rng) Pick(xs ...int) int { return xs[r.Intn(len(xs))] }

// Perm returns a random permutation of 0..n-1.
func (r *Rng) Perm(n int) []int {
	p := make([]int, n)
	for i := range p {
		p[i] = i
	}
	for i := n - 1; i > 0; i-- {
		j := r.Intn(i + 1)
		p[i], p[j] = p[j], p[i]
	}
	return p
}

// Pick64 returns one of the int64s.
func (r *Rng) Pick64(xs ...int64) int64 { return xs[r.Intn(len(xs))] }

// PickS returns one of the strings.
func (r *Rng) PickS(xs ...string) string { return xs[r.Intn(len(xs))] }

// H mixes a seed with strings and ints into a new seed.
func H(seed uint64, parts ...interface{}) uint64 {
	h := fnv.New64a()
	var b [8]byte
	put := func(v uint64) {
		for i := 0; i < 8; i++ {
			b[i] = byte(v >> (8 * i))
		}
		h.Write(b[:])
	}
	put(seed)
	for _, p := range parts {
		switch v := p.(type) {
		case string:
			h.Write([]byte(v))
			h.Write([]byte{0})
		case int:
			put(uint64(v))
		case int64:
			put(uint64(v))
		case uint64:
			put(v)
		default:
			j, _ := json.Marshal(v)
			h.Write(j)
		}
	}
	x := h.Sum64()
	// one splitmix round to spread bits
	x = (x ^ (x >> 30)) * 0xbf58476d1ce4e5b9
	x = (x ^ (x >> 27)) * 0x94d049bb133111eb
	return x ^ (x >> 31)
}

// Hs hashes a string to a short hex signature.
func Hs(s string) string {
	h := fnv.New64a()
	h.Write([]byte(s))
	const hex = "0123456789abcdef"
	v := h.Sum64()
	out := make([]byte, 16)
	for i := 15; i >= 0; i-- {
		out[i] = hex[v&15]
		v >>= 4
	}
	return string(out)
}

// ---------------------------------------------------------------- records

// Status of one evaluated case/scenario.
const (
	Held         = "held"
	Violated     = "violated"
	Inconclusive = "inconclusive"
)

// Result is what the worker reports for one scenario (schedule families) or
// one chunk of generated cases (input families).
type Result struct {
	T      string `json:"t"` // "res"
	Idx    int    `json:"i"`
	Prop   string `json:"prop"`
	Status string `json:"status"`
	// Evals is the number of cases this record stands for (1 for a scenario,
	// the chunk size for input families).
	Evals int `json:"evals"`
	// NonTrivial: by the property's own rule (DESIGN.md section 4).
	NonTrivial int `json:"nontrivial"`
	// Sigs are the distinct-case signatures observed (hashes); the driver
	// unions them across workers to measure distinct_nontrivial.
	Sigs []string `json:"sigs,omitempty"`
	// Msg explains a violation or an inconclusive verdict.
	Msg string `json:"msg,omitempty"`
	// Key identifies the failing input class / call site / history shape; it
	// is what KNOWN_FINDINGS.jsonl entries are matched against.
	Key string `json:"key,omitempty"`
	// Replay is the self-contained description needed to re-run the case.
	Replay json.RawMessage `json:"replay,omitempty"`
	// Witness: dump, output tail, history... (goes into the replay file).
	Witness string `json:"witness,omitempty"`
	// Sample is a human-readable rendition of what was run and observed.
	Sample json.RawMessage `json:"sample,omitempty"`
	// Obs are additive counters (frames parsed, ops recorded, hook hits...).
	Obs map[string]int64 `json:"obs,omitempty"`
	// More violations found in the same chunk (input families).
	Extra []Violation `json:"extra,omitempty"`
}

// Violation is an additional violation inside one Result.
type Violation struct {
	Msg     string          `json:"msg"`
	Key     string          `json:"key"`
	Replay  json.RawMessage `json:"replay,omitempty"`
	Witness string          `json:"witness,omitempty"`
}

// Begin is logged (and synced) before a scenario/chunk starts.
type Begin struct {
	T   string          `json:"t"` // "begin"
	Idx int             `json:"i"`
	Sc  json.RawMessage `json:"sc,omitempty"`
}

// Done is the last record of a worker that ran to the end of its range.
type Done struct {
	T string `json:"t"` // "done"
}

// Job describes a contiguous index range of the seeded case list of a
// property/tier that one worker child executes.
type Job struct {
	Prop   string `json:"prop"`
	Tier   string `json:"tier"`
	Seed   uint64 `json:"seed"`
	From   int    `json:"from"`
	To     int    `json:"to"` // exclusive
	Part   string `json:"part"`
	Race   bool   `json:"race"`
	Procs  int    `json:"procs"`
	Trace  bool   `json:"trace"`
	Replay string `json:"replay,omitempty"` // path of a replay file to run instead
}

// ---------------------------------------------------------------- helpers

func ClampI64(v, lo, hi int64) int64 {
	if v < lo {
		return lo
	}
	if v > hi {
		return hi
	}
	return v
}

func MinInt(a, b int) int {
	if a < b {
		return a
	}
	return b
}

func MaxInt(a, b int) int {
	if a > b {
		return a
	}
	return b
}

const MaxI64 = math.MaxInt64
