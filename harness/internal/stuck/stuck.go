// Package stuck parses goroutine dumps (runtime.Stack(all)) and decides the
// stuck-state certificate of DESIGN.md section 2.4: two dumps taken apart are
// identical and every goroutine is parked in a state that only another
// goroutine could end. That is a deadlock decided from the state, not from
// elapsed time.
package stuck

import (
	"regexp"
	"runtime"
	"sort"
	"strconv"
	"strings"
)

type G struct {
	ID     int
	State  string   // without duration / "locked to thread"
	Frames []string // function names, innermost first
	Where  []string // file:line per frame
	Raw    string
}

var head = regexp.MustCompile(`^goroutine (\d+) \[([^\]]*)\]:$`)
var offs = regexp.MustCompile(` \+0x[0-9a-f]+$`)

// Dump returns all goroutine stacks.
func Dump() string {
	buf := make([]byte, 1<<20)
	for {
		n := runtime.Stack(buf, true)
		if n < len(buf) {
			return string(buf[:n])
		}
		buf = make([]byte, 2*len(buf))
	}
}

func Parse(dump string) []G {
	var out []G
	for _, blk := range strings.Split(dump, "\n\n") {
		lines := strings.Split(strings.TrimSpace(blk), "\n")
		if len(lines) == 0 {
			continue
		}
		m := head.FindStringSubmatch(lines[0])
		if m == nil {
			continue
		}
		id, _ := strconv.Atoi(m[1])
		st := m[2]
		if i := strings.Index(st, ","); i >= 0 {
			st = st[:i]
		}
		g := G{ID: id, State: st, Raw: blk}
		for i := 1; i < len(lines); i++ {
			l := lines[i]
			if strings.HasPrefix(l, "\t") {
				g.Where = append(g.Where, offs.ReplaceAllString(strings.TrimSpace(l), ""))
				continue
			}
			if strings.HasPrefix(l, "created by ") {
				fn := strings.TrimPrefix(l, "created by ")
				if j := strings.Index(fn, " in goroutine"); j >= 0 {
					fn = fn[:j]
				}
				g.Frames = append(g.Frames, "created by "+fn)
				continue
			}
			// function line: name(args)
			if j := strings.LastIndex(l, "("); j > 0 {
				l = l[:j]
			}
			g.Frames = append(g.Frames, l)
		}
		out = append(out, g)
	}
	sort.Slice(out, func(i, j int) bool { return out[i].ID < out[j].ID })
	return out
}

// Has reports whether any frame of g contains sub.
func (g G) Has(sub string) bool {
	for _, f := range g.Frames {
		if strings.Contains(f, sub) {
			return true
		}
	}
	return false
}

// HasExact reports whether g has a frame equal to fn (not a "created by" line).
func (g G) HasExact(fn string) bool {
	for _, f := range g.Frames {
		if f == fn {
			return true
		}
	}
	return false
}

// LibFrames returns the frames that belong to the library under test.
func (g G) LibFrames() []string {
	var out []string
	for _, f := range g.Frames {
		if strings.Contains(f, "github.com/vbauerster/mpb/v8") && !strings.HasPrefix(f, "created by") {
			out = append(out, f)
		}
	}
	return out
}

var parked = map[string]bool{
	"chan send": true, "chan receive": true, "select": true, "select (no cases)": true,
	"semacquire": true, "sync.Mutex.Lock": true, "sync.RWMutex.Lock": true, "sync.RWMutex.RLock": true,
	"sync.Cond.Wait": true, "sync.WaitGroup.Wait": true, "chan send (nil chan)": true, "chan receive (nil chan)": true,
}

// Parked reports whether the state is one that only another goroutine can end.
func Parked(state string) bool { return parked[state] }

func key(g G) string {
	return strconv.Itoa(g.ID) + "|" + g.State + "|" + strings.Join(g.Frames, ";") + "|" + strings.Join(g.Where, ";")
}

// Certify compares two dumps. ignore selects goroutines that are not part of
// the judged system (the monitor itself); allowIO selects goroutines that may
// sit in "IO wait" (the harness' pty reader). It returns ok and, if not ok,
// the reason (which goroutine blocks certification).
func Certify(d1, d2 []G, ignore func(G) bool, allowIO func(G) bool) (bool, string) {
	f := func(d []G) map[int]G {
		m := map[int]G{}
		for _, g := range d {
			if ignore != nil && ignore(g) {
				continue
			}
			m[g.ID] = g
		}
		return m
	}
	m1, m2 := f(d1), f(d2)
	if len(m1) != len(m2) {
		return false, "goroutine sets differ in size"
	}
	if len(m1) == 0 {
		return false, "no goroutines to judge"
	}
	for id, g1 := range m1 {
		g2, ok := m2[id]
		if !ok {
			return false, "goroutine " + strconv.Itoa(id) + " gone"
		}
		if key(g1) != key(g2) {
			return false, "goroutine " + strconv.Itoa(id) + " moved"
		}
		if !Parked(g1.State) {
			if g1.State == "IO wait" && allowIO != nil && allowIO(g1) {
				continue
			}
			return false, "goroutine " + strconv.Itoa(id) + " is " + g1.State
		}
	}
	return true, ""
}

// Signature normalises the parked library frames of a stuck state: the sorted
// set of "state@innermost library frame" strings. Used as the finding key.
func Signature(d []G, ignore func(G) bool) string {
	set := map[string]bool{}
	for _, g := range d {
		if ignore != nil && ignore(g) {
			continue
		}
		lf := g.LibFrames()
		if len(lf) == 0 {
			continue
		}
		fn := lf[0]
		if i := strings.LastIndex(fn, "/"); i >= 0 {
			fn = fn[i+1:]
		}
		set[g.State+"@"+fn] = true
	}
	var ks []string
	for k := range set {
		ks = append(ks, k)
	}
	sort.Strings(ks)
	return strings.Join(ks, ",")
}
